"""CLI: ./check <ID> [--tier quick|thorough] | ./check <ID> --replay <file> | ./check --selftest"""
from __future__ import annotations

import argparse
import importlib
import json
import os
import sys
import time
import traceback

ROOT = os.path.dirname(os.path.dirname(os.path.abspath(__file__)))


def _assert_repo():
    import httpcore
    f = os.path.realpath(httpcore.__file__)
    want = os.environ.get("VERIF_REPO", "/repo")
    if not f.startswith(os.path.realpath(want) + os.sep):
        print(f"MACHINERY ERROR: httpcore imported from {f}, expected under {want}", file=sys.stderr)
        sys.exit(2)


def main(argv=None):
    ap = argparse.ArgumentParser(prog="check")
    ap.add_argument("pid", nargs="?")
    ap.add_argument("--tier", default=os.environ.get("VERIF_TIER", "quick"), choices=["quick", "thorough"])
    ap.add_argument("--replay")
    ap.add_argument("--selftest", action="store_true")
    ap.add_argument("--workers", type=int, default=int(os.environ.get("VERIF_WORKERS", "0")) or None)
    ap.add_argument("--only", default=None, help="restrict to scenarios whose name contains this string (debugging; evidence not written)")
    args = ap.parse_args(argv)
    seed = int(os.environ.get("VERIF_SEED", "0") or 0)

    repo = os.environ.get("VERIF_REPO", "/repo")
    if repo not in sys.path:
        sys.path.insert(0, repo)
    if os.environ.get("VERIF_COV"):
        from . import covtrace
        covtrace.install(repo)
    _assert_repo()
    import logging
    logging.disable(logging.CRITICAL)

    from . import engine, evidence, findings

    if args.selftest:
        from . import selftest
        sys.exit(selftest.main())

    pid = args.pid
    if not pid:
        ap.error("property id required")
    mod = importlib.import_module(f"mc.props.{pid.lower()}")

    if args.replay:
        data = json.load(open(args.replay))
        try:
            if "spec" in data and data["spec"]:
                r = engine.replay(data["spec"], data["choices"])
                if "error" in r:
                    print("MACHINERY ERROR:", r["error"], r.get("tb", ""), file=sys.stderr)
                    sys.exit(2)
                viols = r["violations"]
                print("outcome:", r["outcome"])
                for t in r.get("trace", [])[-40:]:
                    print("  trace:", t)
            else:
                viols = mod.replay_case(data["case"])
        except engine.MachineryError as e:
            print("MACHINERY ERROR:", e, file=sys.stderr)
            sys.exit(2)
        for v in viols:
            print("violation:", json.dumps(v, default=repr)[:2000])
        if viols:
            print(f"VIOLATION property={pid} replay={args.replay}")
            sys.exit(1)
        print("replay: no violation")
        sys.exit(0)

    t0 = time.time()
    try:
        rep = mod.check(tier=args.tier, seed=seed, workers=args.workers, only=args.only)
    except engine.MachineryError as e:
        print(f"MACHINERY ERROR in {pid}: {e}", file=sys.stderr)
        sys.exit(2)
    except Exception:
        print(f"MACHINERY ERROR in {pid}:\n{traceback.format_exc()}", file=sys.stderr)
        sys.exit(2)
    wall = time.time() - t0
    if not args.only and not rep["coverage"].get("evaluations") and not rep["coverage"].get("programs"):
        print(f"MACHINERY ERROR in {pid}: vacuous run (nothing was explored)", file=sys.stderr)
        sys.exit(2)

    known = findings.load()
    seen_known = {}
    saved_known = set()
    new_viol = []
    seen_sigs = set()
    for v in rep["violations"]:
        sig = v.get("signature", {})
        k = json.dumps(sig, sort_keys=True)
        e = findings.match(pid, sig, known)
        if e is not None:
            seen_known.setdefault(e["what"], 0)
            seen_known[e["what"]] += 1
            if os.environ.get("VERIF_SAVE_KNOWN") and e.get("replay") and e["replay"] not in saved_known:
                saved_known.add(e["replay"])
                path = os.path.join(ROOT, e["replay"])
                os.makedirs(os.path.dirname(path), exist_ok=True)
                json.dump({"property": pid, **v}, open(path, "w"), indent=1, sort_keys=True, default=repr)
            continue
        if k in seen_sigs:
            continue
        seen_sigs.add(k)
        new_viol.append(v)

    for what, n in seen_known.items():
        print(f"KNOWN-FINDING: property={pid} {what} (seen {n}x)")
    code = 0
    if os.environ.get("VERIF_DEBUG"):
        json.dump([{"oracle": v.get("oracle"), "signature": v.get("signature"), "message": v.get("message"), "spec": v.get("spec"), "choices": v.get("choices")}
                   for v in new_viol], open(f"/tmp/verif_viol_{pid}.json", "w"), indent=1, default=repr)
    for v in new_viol[:10]:
        path = findings.write_replay(pid, v) if not os.environ.get("VERIF_NO_EVIDENCE") else "(not written)"
        print(f"VIOLATION property={pid} replay={path}")
        print("   ", v.get("oracle"), "::", str(v.get("message"))[:600])
        print("    signature:", json.dumps(v.get("signature", {}), sort_keys=True)[:600])
        code = 1
    if args.only is None and not os.environ.get("VERIF_NO_EVIDENCE"):
        cov = rep["coverage"]
        cov["known_findings_matched"] = sum(seen_known.values())
        try:
            path = evidence.write(pid, args.tier, seed, rep["level"], cov, wall, len(new_viol),
                                  assumptions=rep.get("assumptions", ()), known_findings=sorted(seen_known))
        except Exception as e:
            print(f"MACHINERY ERROR in {pid}: evidence not valid: {e}", file=sys.stderr)
            sys.exit(2)
    summ = {k: rep["coverage"].get(k) for k in ("states", "transitions", "evaluations", "distinct_nontrivial", "exhaustive", "programs") if k in rep["coverage"]}
    print(f"{pid} tier={args.tier} seed={seed} {summ} violations={len(new_viol)} known={sum(seen_known.values())} wall={wall:.1f}s")
    sys.exit(code)


if __name__ == "__main__":
    main()
