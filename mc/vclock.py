"""Virtual clock seam: httpcore's http11/http2 modules call time.monotonic() for keep-alive
expiry; the module-level name `time` in those four modules is rebound (in the checker's own
process, no source change) to a shim that reads whatever clock the current world installed."""
from __future__ import annotations

import time as _real_time

_SOURCE = [None]


class _TimeShim:
    def monotonic(self):
        src = _SOURCE[0]
        return src() if src is not None else _real_time.monotonic()

    def __getattr__(self, name):
        return getattr(_real_time, name)


_SHIM = _TimeShim()
_installed = [False]


def install(source):
    _SOURCE[0] = source
    if not _installed[0]:
        import httpcore._async.http11 as a11
        import httpcore._async.http2 as a2
        import httpcore._sync.http11 as s11
        import httpcore._sync.http2 as s2
        for m in (a11, a2, s11, s2):
            if not hasattr(m, "time"):
                raise RuntimeError(f"{m.__name__} no longer has a module-level 'time': clock seam lost")
            m.time = _SHIM
        _installed[0] = True
