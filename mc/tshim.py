"""Replacement for the name `threading` inside httpcore._synchronization (rebinding in the
checker's own process; no source change).  A real threading.Lock would block the whole
controlled world, so every primitive asks the installed scheduler:

  scheduler is None      sequential world: an operation that would block is a deadlock
                         (raises SeqDeadlock, a BaseException)
  scheduler = TWorld     thread world: blocking = the thread is disabled until its condition
                         holds; every operation is a scheduling point
"""
from __future__ import annotations

import threading as _real

SCHED = [None]


class SeqDeadlock(BaseException):
    """A synchronous primitive would block forever in a single-threaded world."""


class Lock:
    def __init__(self):
        self.owner = None
        self._mc_name = None

    def acquire(self, blocking=True, timeout=-1):
        s = SCHED[0]
        if s is None:
            if self.owner is not None:
                raise SeqDeadlock("lock already held in the sequential world")
            self.owner = "seq"
            return True
        return s.lock_acquire(self)

    def release(self):
        s = SCHED[0]
        if s is None:
            self.owner = None
            return
        s.lock_release(self)

    def locked(self):
        return self.owner is not None

    __enter__ = acquire

    def __exit__(self, *a):
        self.release()


class Event:
    def __init__(self):
        self.flag = False

    def is_set(self):
        return self.flag

    def set(self):
        s = SCHED[0]
        self.flag = True
        if s is not None:
            s.event_set(self)

    def clear(self):
        self.flag = False

    def wait(self, timeout=None):
        s = SCHED[0]
        if s is None:
            if self.flag:
                return True
            if timeout is None:
                raise SeqDeadlock("Event.wait() without timeout on an unset event in the sequential world")
            return False
        return s.event_wait(self, timeout)


class Semaphore:
    def __init__(self, value=1):
        self.value = value

    def acquire(self, blocking=True, timeout=None):
        s = SCHED[0]
        if s is None:
            if self.value <= 0:
                raise SeqDeadlock("Semaphore.acquire() at zero in the sequential world")
            self.value -= 1
            return True
        return s.sem_acquire(self)

    def release(self, n=1):
        s = SCHED[0]
        self.value += n
        if s is not None:
            s.sem_release(self)


class _Shim:
    Lock = Lock
    Event = Event
    Semaphore = Semaphore

    def __getattr__(self, name):
        return getattr(_real, name)


SHIM = _Shim()
_installed = [False]


def install():
    if _installed[0]:
        return
    import httpcore._synchronization as sy
    if not hasattr(sy, "threading"):
        raise RuntimeError("httpcore._synchronization no longer has a module-level 'threading': seam lost")
    sy.threading = SHIM
    _installed[0] = True
