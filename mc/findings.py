"""Known findings: exact-signature matching against /verif/known_findings.json (never written at run time)."""
from __future__ import annotations

import hashlib
import json
import os

ROOT = os.path.dirname(os.path.dirname(os.path.abspath(__file__)))
KF_PATH = os.path.join(ROOT, "known_findings.json")
REPLAY_DIR = os.path.join(ROOT, "replays")


def load():
    if not os.path.exists(KF_PATH):
        return []
    return json.load(open(KF_PATH))


def match(pid: str, signature: dict, entries=None):
    """Return the open known-finding entry whose signature equals this one, else None."""
    entries = load() if entries is None else entries
    for e in entries:
        if e.get("property") != pid or e.get("status") != "open":
            continue
        sig = e.get("signature", {})
        if sig and all(_eq(signature.get(k), v) for k, v in sig.items()):
            return e
    return None


def _eq(actual, wanted):
    """Entry value {"any_of": [...]} matches any listed value; everything else must be equal."""
    if isinstance(wanted, dict) and "any_of" in wanted:
        return actual in wanted["any_of"]
    return actual == wanted


def write_replay(pid: str, viol: dict) -> str:
    os.makedirs(REPLAY_DIR, exist_ok=True)
    body = json.dumps({"property": pid, **viol}, indent=1, sort_keys=True, default=repr)
    h = hashlib.blake2b(json.dumps([viol.get("spec"), viol.get("choices"), viol.get("case")], sort_keys=True, default=repr).encode(), digest_size=5).hexdigest()
    path = os.path.join(REPLAY_DIR, f"{pid}-{h}.json")
    with open(path, "w") as f:
        f.write(body)
    return os.path.relpath(path, ROOT)
