"""Simulated network: transports, ledger, sync/async stream+backend faces.

Implements only the public NetworkBackend / AsyncNetworkBackend / NetworkStream
interfaces of httpcore.  Every operation is recorded in a ledger.  How an
operation is answered (success with how many bytes, which fault, when) is
decided by an *environment* object:

  env.immediate(op) -> answer          sequential worlds: answered at once
  env.pend(op)      -> awaitable       asyncio world: completes when the explorer says so
  env.sync_point(op)                   thread world: scheduling point before the op is answered

An answer is ("ok", payload) or ("raise", exception_instance).
"""
from __future__ import annotations

import asyncio
import typing

import httpcore
from httpcore import (
    ConnectError, ConnectTimeout, ReadError, ReadTimeout, WriteError, WriteTimeout,
)

FAULTS = {
    "connect": {"ConnectError": ConnectError, "ConnectTimeout": ConnectTimeout,
                # "other" failures at the establishment stage (C20: must never be retried)
                "ReadTimeout": ReadTimeout, "WriteError": WriteError, "OSError": OSError},
    "start_tls": {"ConnectError": ConnectError, "ConnectTimeout": ConnectTimeout,
                  "ReadTimeout": ReadTimeout, "WriteError": WriteError, "OSError": OSError},
    "read": {"ReadError": ReadError, "ReadTimeout": ReadTimeout},
    "write": {"WriteError": WriteError, "WriteTimeout": WriteTimeout},
}
# the documented fault kinds per operation (default menu)
SOFT_FAULTS = {"ReadTimeout", "WriteTimeout", "TimeoutError", "trio.TooSlowError"}    # the operation timed out: the peer is still there
DEFAULT_FAULT_KINDS = {
    "connect": ["ConnectError", "ConnectTimeout"], "start_tls": ["ConnectError", "ConnectTimeout"],
    "read": ["ReadError", "ReadTimeout"], "write": ["WriteError", "WriteTimeout"],
}


class Hang(BaseException):
    """The client waits for bytes that the peer will never send (sequential world)."""


class TLSFailure(Exception):
    """Raised by a peer's on_tls to refuse the handshake."""


class FakeSSLObject:
    def __init__(self, alpn):
        self._alpn = alpn

    def selected_alpn_protocol(self):
        return self._alpn


class RecordingSSLContext:
    """Duck-typed ssl context: records the ALPN list httpcore sets on it."""

    def __init__(self, name="ctx"):
        self.name = name
        self.alpn = None
        self.alpn_history = []

    def set_alpn_protocols(self, protos):
        self.alpn = list(protos)
        self.alpn_history.append(list(protos))


class Transport:
    def __init__(self, net, tid, kind, host, port, peer):
        self.net = net
        self.id = tid
        self.kind = kind
        self.host = host
        self.port = port
        self.peer = peer
        self.closed = False          # closed by the client
        self.close_count = 0
        self.inbound = bytearray()   # peer -> client, not yet read
        self.peer_eof = False        # peer closed its side (EOF after inbound drained)
        self.written = bytearray()   # client -> peer, everything
        self.layers: list[dict] = [] # TLS layers: {"sni":..,"alpn_offered":..,"alpn":..,"ctx":..,"wpos":..}
        self.read_total = 0
        self.write_after_close = 0
        self.opened_at = net.now()

    # peer side API
    def send(self, data: bytes):
        if not self.peer_eof:
            self.inbound += data

    def shutdown(self):
        self.peer_eof = True

    @property
    def readable(self):
        return bool(self.inbound) or self.peer_eof

    def __repr__(self):
        return f"<T{self.id} {self.host}:{self.port} tls={len(self.layers)} closed={self.closed}>"


class Op:
    __slots__ = ("i", "kind", "tr", "layer", "args", "result", "fut", "forced", "task", "t", "stream", "state", "closed_from")

    def __init__(self, i, kind, tr, layer, args, task, t):
        self.i = i
        self.kind = kind
        self.tr = tr
        self.layer = layer
        self.args = args
        self.result = None
        self.fut = None
        self.forced = None
        self.task = task
        self.t = t
        self.stream = None
        self.state = "new"
        self.closed_from = None     # sync close only: httpcore functions on the stack (diagnostic, not part of the ledger record)

    def rec(self):
        a = {}
        for k, v in self.args.items():
            if isinstance(v, (bytes, bytearray)):
                a[k] = bytes(v).hex() if len(v) <= 96 else f"{len(v)}B:" + bytes(v[:32]).hex() + ".."
            elif isinstance(v, RecordingSSLContext):
                a[k] = f"ctx:{v.name}"
            else:
                a[k] = v if isinstance(v, (int, float, str, type(None), bool, list)) else repr(v)
        r = self.result
        if isinstance(r, (bytes, bytearray)):
            r = bytes(r).hex() if len(r) <= 96 else f"{len(r)}B"
        return {"i": self.i, "op": self.kind, "tr": None if self.tr is None else self.tr.id, "layer": self.layer,
                "args": a, "res": r, "st": self.state, "task": self.task}


class Net:
    def __init__(self, env, router, clock=None):
        self.env = env
        self.router = router          # (kind, host, port) -> peer instance
        self.clock = clock or (lambda: 0.0)
        self.ledger: list[Op] = []
        self.transports: list[Transport] = []
        self.pending: list[Op] = []
        self.connects_in_flight = 0
        self.sleeps: list[float] = []
        self.stale_layer_ops: list = []
        self.task_namer = lambda: None

    def now(self):
        return self.clock()

    # -- bookkeeping
    def new_op(self, kind, tr, layer, **args):
        op = Op(len(self.ledger), kind, tr, layer, args, self.task_namer(), self.now())
        self.ledger.append(op)
        if kind in ("read", "write") and tr is not None and layer != len(tr.layers) and (kind == "read" or args.get("data")):
            # I/O through a stream object of an outdated layer: the stream that start_tls() was called on, used after the upgrade
            # (on a real socket: cleartext written underneath the TLS session / raw TLS records read as application data)
            self.stale_layer_ops.append((op.i, kind, tr.id, layer, len(tr.layers)))
        return op

    def open_transports(self):
        return [t for t in self.transports if not t.closed]

    # -- applying an answer (shared by all worlds)
    def apply(self, op: Op, ans):
        how, payload = ans
        kind = op.kind
        if how == "raise":
            op.state = "raised:" + type(payload).__name__
            if kind == "start_tls":
                # all three real backends close the transport when the TLS upgrade fails with an Exception
                self._close_transport(op.tr)
            raise payload
        op.state = "ok"
        if kind in ("connect_tcp", "connect_unix"):
            host = op.args.get("host", op.args.get("path"))
            port = op.args.get("port")
            peer = self.router(kind, host, port)
            tr = Transport(self, len(self.transports), kind, host, port, peer)
            self.transports.append(tr)
            op.tr = tr
            peer.on_connect(tr)
            op.result = f"T{tr.id}"
            return tr
        tr = op.tr
        if kind == "start_tls":
            ctx = op.args["ssl_context"]
            offered = list(getattr(ctx, "alpn", None) or [])
            try:
                alpn = tr.peer.on_tls(tr, op.args.get("server_hostname"), offered)
            except TLSFailure as e:
                op.state = "raised:ConnectError(tls refused)"
                self._close_transport(tr)
                raise ConnectError(str(e))
            tr.layers.append({"sni": op.args.get("server_hostname"), "alpn_offered": offered, "alpn": alpn,
                              "ctx": getattr(ctx, "name", None), "wpos": len(tr.written), "timeout": op.args.get("timeout")})
            op.result = f"tls{len(tr.layers)}:{alpn}"
            return len(tr.layers)
        if kind == "read":
            n = payload
            if n is None:
                n = min(len(tr.inbound), op.args["max_bytes"])
            data = bytes(tr.inbound[:n])
            del tr.inbound[:n]
            tr.read_total += len(data)
            op.result = data
            tr.peer.on_client_read(tr, len(data))
            return data
        if kind == "write":
            data = op.args["data"]
            tr.written += data
            if not tr.peer_eof:
                tr.peer.on_data(tr, bytes(data))
            return None
        raise AssertionError(kind)

    def _close_transport(self, tr: Transport):
        tr.close_count += 1
        if not tr.closed:
            tr.closed = True
            tr.peer.on_client_close(tr)
            for p in self.pending:
                if p.tr is tr and p.forced is None:
                    p.forced = ReadError("closed") if p.kind == "read" else (
                        WriteError("closed") if p.kind == "write" else ConnectError("closed"))

    # -- answer menus
    def read_available(self, op) -> int:
        return min(len(op.tr.inbound), op.args["max_bytes"])


# ------------------------------------------------------------------ stream faces


class _StreamCommon:
    def __init__(self, net: Net, tr: Transport, layer: int):
        self._net = net
        self._tr = tr
        self._layer = layer

    def get_extra_info(self, info: str) -> typing.Any:
        self._net.env.note_extra_info(self._tr, info)
        if info == "ssl_object":
            if self._layer == 0:
                return None
            return FakeSSLObject(self._tr.layers[self._layer - 1]["alpn"])
        if info == "is_readable":
            return self._tr.closed or self._tr.readable
        return None

    def __repr__(self):
        return f"<SimStream T{self._tr.id} L{self._layer}>"

    # pre-checks common to both faces: ops on a closed transport fail at once
    def _pre(self, kind):
        if self._tr.closed:
            if kind == "read":
                return ReadError("stream closed")
            if kind == "write":
                return WriteError("stream closed")
            if kind == "start_tls":
                return ConnectError("stream closed")
        return None


class SimStream(_StreamCommon, httpcore.NetworkStream):
    def read(self, max_bytes: int, timeout: float | None = None) -> bytes:
        net = self._net
        op = net.new_op("read", self._tr, self._layer, max_bytes=max_bytes, timeout=timeout)
        net.env.sync_point(op)
        e = self._pre("read")
        if e is not None:
            op.state = "raised:closed"
            raise e
        return net.apply(op, net.env.immediate(op))

    def write(self, buffer: bytes, timeout: float | None = None) -> None:
        net = self._net
        if not buffer:
            return
        op = net.new_op("write", self._tr, self._layer, data=bytes(buffer), timeout=timeout)
        net.env.sync_point(op)
        e = self._pre("write")
        if e is not None:
            op.state = "raised:closed"
            raise e
        net.apply(op, net.env.immediate(op))

    def close(self) -> None:
        net = self._net
        op = net.new_op("close", self._tr, self._layer)
        # who closes: the httpcore functions on the stack (root-cause fact for thread-world findings)
        import sys as _sys
        f, chain = _sys._getframe(1), []
        while f is not None and len(chain) < 8:
            if "/httpcore/" in f.f_code.co_filename:
                chain.append(f"{f.f_code.co_filename.rsplit('/', 1)[-1]}:{f.f_code.co_qualname}")
            f = f.f_back
        op.closed_from = chain[:6]
        net.env.sync_point(op)
        op.state = "ok"
        net._close_transport(self._tr)

    def start_tls(self, ssl_context, server_hostname=None, timeout=None):
        net = self._net
        op = net.new_op("start_tls", self._tr, self._layer, ssl_context=ssl_context,
                        server_hostname=server_hostname, timeout=timeout)
        net.env.sync_point(op)
        e = self._pre("start_tls")
        if e is not None:
            op.state = "raised:closed"
            raise e
        layer = net.apply(op, net.env.immediate(op))
        return SimStream(net, self._tr, layer)


class SimBackend(httpcore.NetworkBackend):
    def __init__(self, net: Net):
        self._net = net

    def connect_tcp(self, host, port, timeout=None, local_address=None, socket_options=None):
        net = self._net
        op = net.new_op("connect_tcp", None, 0, host=host, port=port, timeout=timeout,
                        local_address=local_address, socket_options=None if socket_options is None else list(socket_options))
        net.connects_in_flight += 1
        try:
            net.env.sync_point(op)
            tr = net.apply(op, net.env.immediate(op))
        finally:
            net.connects_in_flight -= 1
        return SimStream(net, tr, 0)

    def connect_unix_socket(self, path, timeout=None, socket_options=None):
        net = self._net
        op = net.new_op("connect_unix", None, 0, path=path, timeout=timeout,
                        socket_options=None if socket_options is None else list(socket_options))
        net.connects_in_flight += 1
        try:
            net.env.sync_point(op)
            tr = net.apply(op, net.env.immediate(op))
        finally:
            net.connects_in_flight -= 1
        return SimStream(net, tr, 0)

    def sleep(self, seconds: float) -> None:
        net = self._net
        op = net.new_op("sleep", None, 0, seconds=seconds)
        op.state = "ok"
        net.sleeps.append(seconds)
        net.env.on_sleep(seconds)


class AsyncSimStream(_StreamCommon, httpcore.AsyncNetworkStream):
    async def _answer(self, op):
        """Value of the operation (or raises).  In the asyncio world the environment applies the
        answer when it delivers it; in the sequential world it is applied here."""
        net = self._net
        if net.env.suspending:
            return await net.env.pend(op)
        return net.apply(op, net.env.immediate(op))

    async def read(self, max_bytes: int, timeout: float | None = None) -> bytes:
        net = self._net
        op = net.new_op("read", self._tr, self._layer, max_bytes=max_bytes, timeout=timeout)
        e = self._pre("read")
        if e is not None:
            op.state = "raised:closed"
            raise e
        return await self._answer(op)

    async def write(self, buffer: bytes, timeout: float | None = None) -> None:
        net = self._net
        if not buffer:
            return
        op = net.new_op("write", self._tr, self._layer, data=bytes(buffer), timeout=timeout)
        e = self._pre("write")
        if e is not None:
            op.state = "raised:closed"
            raise e
        await self._answer(op)

    async def aclose(self) -> None:
        net = self._net
        op = net.new_op("close", self._tr, self._layer)
        op.state = "ok"
        net._close_transport(self._tr)
        if net.env.suspending:
            # anyio's SocketStream.aclose() closes the transport and then does `await sleep(0)`; trio's aclose checkpoints too
            await net.env.yield_once()

    async def start_tls(self, ssl_context, server_hostname=None, timeout=None):
        net = self._net
        op = net.new_op("start_tls", self._tr, self._layer, ssl_context=ssl_context,
                        server_hostname=server_hostname, timeout=timeout)
        e = self._pre("start_tls")
        if e is not None:
            op.state = "raised:closed"
            raise e
        layer = await self._answer(op)
        return AsyncSimStream(net, self._tr, layer)


class AsyncSimBackend(httpcore.AsyncNetworkBackend):
    def __init__(self, net: Net):
        self._net = net

    async def _connect(self, op):
        net = self._net
        net.connects_in_flight += 1
        try:
            if net.env.suspending:
                tr = await net.env.pend(op)
            else:
                tr = net.apply(op, net.env.immediate(op))
        finally:
            net.connects_in_flight -= 1
        return AsyncSimStream(net, tr, 0)

    async def connect_tcp(self, host, port, timeout=None, local_address=None, socket_options=None):
        op = self._net.new_op("connect_tcp", None, 0, host=host, port=port, timeout=timeout,
                              local_address=local_address, socket_options=None if socket_options is None else list(socket_options))
        return await self._connect(op)

    async def connect_unix_socket(self, path, timeout=None, socket_options=None):
        op = self._net.new_op("connect_unix", None, 0, path=path, timeout=timeout,
                              socket_options=None if socket_options is None else list(socket_options))
        return await self._connect(op)

    async def sleep(self, seconds: float) -> None:
        net = self._net
        op = net.new_op("sleep", None, 0, seconds=seconds)
        op.state = "ok"
        net.sleeps.append(seconds)
        if net.env.suspending:
            await net.env.sleep(seconds)
        else:
            net.env.on_sleep(seconds)


# ------------------------------------------------------------------ sequential environment


class SeqEnv:
    """Answers every operation immediately, asking the chooser where the
    environment has a choice.

    segment:   reads may return any non-empty prefix of the available bytes
    faults:    remaining number of injected faults (each a deviation)
    fault_kinds: {"read": [...], ...} names from FAULTS to offer
    eof_anywhere: a read may also return EOF although bytes are available
                  (the peer died: truncation point enumeration)
    """

    suspending = False

    def _mc_state(self):
        return ("seqenv", self.faults, self.time)

    def __init__(self, chooser, *, segment=False, faults=0, fault_kinds=None, fp=None,
                 eof_anywhere=False, seg_cost=0, starve="hang", fault_ops=None, seg_filter=None):
        self.seg_filter = seg_filter    # optional predicate(op) -> bool: may this read be cut?
        self.chooser = chooser
        self.segment = segment
        self.faults = faults
        self.fault_kinds = fault_kinds if fault_kinds is not None else {k: list(v) for k, v in DEFAULT_FAULT_KINDS.items()}
        self.fp = fp
        self.eof_anywhere = eof_anywhere
        self.seg_cost = seg_cost
        self.starve = starve
        self.fault_ops = fault_ops      # optional predicate(op)->bool
        self.net = None
        self.injected = []
        self.time = 0.0
        self.extra_info_log = []

    def note_extra_info(self, tr, info):
        pass

    def sync_point(self, op):
        pass

    def on_sleep(self, seconds):
        self.time += seconds

    def immediate(self, op):
        kind = op.kind
        fk = "connect" if kind.startswith("connect") else kind
        menu = []   # list of (label, answer)
        if kind == "read":
            tr = op.tr
            avail = min(len(tr.inbound), op.args["max_bytes"])
            if avail == 0:
                if tr.peer_eof:
                    menu.append(("eof", ("ok", 0)))
                else:
                    if self.starve == "timeout":
                        menu.append(("starve-timeout", ("raise", ReadTimeout("simulated: no data"))))
                    else:
                        op.state = "hang"
                        raise Hang(f"read on T{tr.id} with nothing to read and peer not closed")
            else:
                menu.append((f"all{avail}", ("ok", avail)))
                if self.segment and (self.seg_filter is None or self.seg_filter(op)):
                    for j in range(1, avail):
                        menu.append((f"seg{j}", ("ok", j)))
                if self.eof_anywhere:
                    menu.append(("die", ("die", None)))
        else:
            menu.append(("ok", ("ok", None)))
        ncheap = len(menu)
        if self.faults > 0 and (self.fault_ops is None or self.fault_ops(op)):
            for name in self.fault_kinds.get(fk, ()):
                menu.append((name, ("raise", name)))
            if op.layer > 0:
                # failures only a TLS layer can produce (OS-level alphabets of mc.simnet.fakeos)
                for name in self.fault_kinds.get(fk + "_tls", ()):
                    menu.append((name, ("raise", name)))
        if len(menu) == 1:
            ans = menu[0][1]
        else:
            label = f"{kind}#{op.i}[" + ",".join(m[0] for m in menu[:3]) + (",.." if len(menu) > 3 else "") + "]"
            # segmentation alternatives cost seg_cost; faults and peer death cost 1
            costs = [0] + [self.seg_cost if m[0].startswith("seg") else 1 for m in menu[1:]]
            c = self.chooser.choose(len(menu), label, cost=costs, fp=self.fp)
            ans = menu[c][1]
        if ans[0] == "die":
            # the peer dies now: bytes not yet delivered are lost
            del op.tr.inbound[:]
            op.tr.peer_eof = True
            self.injected.append((op.i, "die"))
            return ("ok", 0)
        if ans[0] == "raise" and isinstance(ans[1], str):
            self.faults -= 1
            exc = FAULTS[fk][ans[1]](f"injected {ans[1]} at op {op.i}")
            self.injected.append((op.i, ans[1]))
            if (ans[1] in ("WriteError", "ReadError") or (fk in ("read", "write") and ans[1] not in SOFT_FAULTS)) and op.tr is not None:
                # a hard I/O error means the connection is gone: nothing further arrives from the peer
                op.tr.peer_eof = True
            return ("raise", exc)
        return ans
