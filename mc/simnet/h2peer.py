"""Frame-level HTTP/2 peer.  Own 9-byte-header frame codec for everything it emits
and parses; `hpack` only for header blocks.  It does NOT use the h2 state machine.

The peer keeps its own books: open streams against the limit it advertised (and
whether the client has read that SETTINGS frame yet), stream / connection windows
for what the client sends, the client's windows for what it sends itself.
"""
from __future__ import annotations

import re

import hpack

from .http1 import Peer

PREFACE = b"PRI * HTTP/2.0\r\n\r\nSM\r\n\r\n"
DATA, HEADERS, PRIORITY, RST_STREAM, SETTINGS, PUSH_PROMISE, PING, GOAWAY, WINDOW_UPDATE, CONTINUATION = range(10)
FLAG_END_STREAM, FLAG_ACK, FLAG_END_HEADERS, FLAG_PADDED, FLAG_PRIORITY = 0x1, 0x1, 0x4, 0x8, 0x20
S_HEADER_TABLE_SIZE, S_ENABLE_PUSH, S_MAX_CONCURRENT_STREAMS, S_INITIAL_WINDOW_SIZE, S_MAX_FRAME_SIZE, S_MAX_HEADER_LIST_SIZE = 1, 2, 3, 4, 5, 6


def frame(ftype: int, flags: int, sid: int, payload: bytes = b"", length=None) -> bytes:
    n = len(payload) if length is None else length
    return n.to_bytes(3, "big") + bytes([ftype, flags]) + (sid & 0x7FFFFFFF).to_bytes(4, "big") + payload


def settings_payload(d: dict) -> bytes:
    return b"".join(k.to_bytes(2, "big") + v.to_bytes(4, "big") for k, v in d.items())


class StreamRec:
    _mc_skip = ("data_frames",)

    def __init__(self, sid, window):
        self.id = sid
        self.headers = None          # list[(name, value)] as received
        self.body = bytearray()
        self.data_frames: list[int] = []
        self.end_stream = False      # client finished sending
        self.end_count = 0
        self.reset_by_client = False
        self.closed = False          # fully closed by the server's books (both directions ended or reset)
        self.recv_window = window    # credit the client has for sending DATA on this stream
        self.send_window = 65535     # credit we have for sending DATA to the client
        self.responded = False
        self.resp_sent_end = False
        self.pending_out = bytearray()   # response body bytes waiting for client credit
        self.pending_end = False
        self.token = None
        self.credit_returned = 0


class H2Conn(Peer):
    # history-only attributes: they never influence what the peer does next
    _mc_skip = ("frames_in", "open_at_headers", "server", "tr", "tls", "max_open_seen", "limit_history_full")

    def __init__(self, server):
        self.server = server
        cfg = server.cfg
        self.buf = bytearray()
        self.got_preface = False
        self.decoder = hpack.Decoder()
        self.encoder = hpack.Encoder()
        self.streams: dict[int, StreamRec] = {}
        self.order: list[int] = []
        self.violations: list[str] = []
        self.client_settings: dict[int, int] = {}
        self.settings_frames_from_client = 0
        self.settings_acks_from_client = 0
        # what we have advertised; pending_limits: advertised but possibly not yet read by the client
        self.adv = {S_MAX_CONCURRENT_STREAMS: None, S_INITIAL_WINDOW_SIZE: 65535, S_MAX_FRAME_SIZE: 16384}
        self.limit_history: list[tuple[int, int | None]] = []   # (bytes sent offset at which the SETTINGS frame ends, limit)
        self.sent_total = 0           # bytes handed to the transport
        self.conn_recv_window = 65535     # credit the client has for sending DATA (connection)
        self.conn_send_window = 65535     # our credit towards the client (connection)
        self.client_initial_window = 65535
        self.conn_credit_returned = 0
        self.data_consumed_by_client = 0
        self.max_open_seen = 0
        self.open_at_headers: list[tuple[int, int, int | None]] = []   # (sid, open count incl. this one, effective limit)
        self.headers_in_progress = None
        self.goaway_sent = None
        self.goaway_from_client = None
        self.pings = 0
        self.tr = None
        self.tls = []
        self.highest_sid = 0
        self.frames_in: list[tuple] = []
        self.sent_settings_initial = False
        self.unacked_settings: list = []

    # ------------------------------------------------------------ transport events
    def on_connect(self, tr):
        self.tr = tr
        # bytes that travelled to the client on this transport before this HTTP/2 conversation began (a proxy's CONNECT reply,
        # SOCKS negotiation): "the client has read our frame at offset X" is judged relative to them
        self.read_base = tr.read_total + len(tr.inbound)
        self.server.conns.append(self)
        if self.server.cfg.get("settings_at_connect"):
            self.send_settings(self._initial_settings())
            self.sent_settings_initial = True

    def on_tls(self, tr, sni, alpn_offered):
        sel = "h2" if "h2" in alpn_offered else ("http/1.1" if "http/1.1" in alpn_offered else None)
        self.tls.append((sni, tuple(alpn_offered), sel))
        return sel

    def _initial_settings(self):
        cfg = self.server.cfg
        d = {}
        if cfg.get("max_streams") is not None:
            d[S_MAX_CONCURRENT_STREAMS] = cfg["max_streams"]
        if cfg.get("initial_window") is not None:
            d[S_INITIAL_WINDOW_SIZE] = cfg["initial_window"]
        if cfg.get("max_frame") is not None:
            d[S_MAX_FRAME_SIZE] = cfg["max_frame"]
        return d

    def out(self, data: bytes):
        self.sent_total += len(data)
        self.tr.send(data)

    def send_settings(self, d: dict):
        """Our settings bind the client only once it has acknowledged them (RFC 9113 6.5.3): window / frame-size
        accounting switches at the ACK; the concurrency limit is judged against what the client has *read*."""
        self.out(frame(SETTINGS, 0, 0, settings_payload(d)))
        self.unacked_settings.append(dict(d))
        if S_MAX_CONCURRENT_STREAMS in d:
            self.adv[S_MAX_CONCURRENT_STREAMS] = d[S_MAX_CONCURRENT_STREAMS]
            self.limit_history.append((self.sent_total, d[S_MAX_CONCURRENT_STREAMS]))

    def _settings_acked(self):
        if not self.unacked_settings:
            self.violations.append("SETTINGS ACK without outstanding SETTINGS")
            return
        d = self.unacked_settings.pop(0)
        if S_INITIAL_WINDOW_SIZE in d:
            delta = d[S_INITIAL_WINDOW_SIZE] - self.adv[S_INITIAL_WINDOW_SIZE]
            self.adv[S_INITIAL_WINDOW_SIZE] = d[S_INITIAL_WINDOW_SIZE]
            for s in self.streams.values():
                if not s.closed:
                    s.recv_window += delta
        if S_MAX_FRAME_SIZE in d:
            self.adv[S_MAX_FRAME_SIZE] = d[S_MAX_FRAME_SIZE]

    def effective_limit(self):
        """The concurrency limit the client is bound by: the most recent
        MAX_CONCURRENT_STREAMS whose SETTINGS frame the client has already read
        (RFC: 1 is httpcore's own rule before any SETTINGS arrive)."""
        read = self.tr.read_total - getattr(self, "read_base", 0)
        lim = "unset"
        for off, v in self.limit_history:
            if off <= read:
                lim = v
        return lim

    def strictest_recent_limit(self):
        """Most permissive reading for the oracle: the client may still act on any limit
        among the last one it has read and every later one (it cannot know more)."""
        read = self.tr.read_total - getattr(self, "read_base", 0)
        cur = "unset"
        for off, v in self.limit_history:
            if off <= read:
                cur = v
        return cur

    def on_client_read(self, tr, n):
        pass

    def on_client_close(self, tr):
        pass

    def on_data(self, tr, data):
        self.buf += data
        if not self.got_preface:
            if len(self.buf) < len(PREFACE):
                if not PREFACE.startswith(bytes(self.buf)):
                    self.violations.append(f"bad preface {bytes(self.buf)!r}")
                return
            if bytes(self.buf[:len(PREFACE)]) != PREFACE:
                self.violations.append(f"bad preface {bytes(self.buf[:24])!r}")
                return
            del self.buf[:len(PREFACE)]
            self.got_preface = True
            if not self.sent_settings_initial and self.server.cfg.get("auto_settings", True):
                self.send_settings(self._initial_settings())
                self.sent_settings_initial = True
        while len(self.buf) >= 9:
            n = int.from_bytes(self.buf[:3], "big")
            if len(self.buf) < 9 + n:
                break
            ftype, flags = self.buf[3], self.buf[4]
            sid = int.from_bytes(self.buf[5:9], "big") & 0x7FFFFFFF
            payload = bytes(self.buf[9:9 + n])
            del self.buf[:9 + n]
            self._frame(ftype, flags, sid, payload)
        self.server.after_input(self)

    # ------------------------------------------------------------ frame handling
    def open_streams(self):
        return [s for s in self.streams.values() if not s.closed]

    def _frame(self, ftype, flags, sid, payload):
        self.frames_in.append((ftype, flags, sid, len(payload)))
        mfs = max([self.adv[S_MAX_FRAME_SIZE]] + [d[S_MAX_FRAME_SIZE] for d in self.unacked_settings if S_MAX_FRAME_SIZE in d])
        if len(payload) > mfs:
            self.violations.append(f"frame type {ftype} of {len(payload)} bytes exceeds MAX_FRAME_SIZE {mfs}")
        if self.headers_in_progress is not None and ftype != CONTINUATION:
            self.violations.append("frame interleaved into a header block")
        if ftype == SETTINGS:
            if flags & FLAG_ACK:
                self.settings_acks_from_client += 1
                self._settings_acked()
                return
            self.settings_frames_from_client += 1
            for i in range(0, len(payload) - 5, 6):
                k = int.from_bytes(payload[i:i + 2], "big")
                v = int.from_bytes(payload[i + 2:i + 6], "big")
                self.client_settings[k] = v
                if k == S_INITIAL_WINDOW_SIZE:
                    delta = v - self.client_initial_window
                    self.client_initial_window = v
                    for s in self.streams.values():
                        s.send_window += delta
            self.out(frame(SETTINGS, FLAG_ACK, 0))
            return
        if ftype == HEADERS:
            p = payload
            if flags & FLAG_PADDED:
                pad = p[0]
                p = p[1:len(p) - pad]
            if flags & FLAG_PRIORITY:
                p = p[5:]
            self.headers_in_progress = [sid, bytearray(p), flags]
            if flags & FLAG_END_HEADERS:
                self._headers_done()
            return
        if ftype == CONTINUATION:
            if self.headers_in_progress is None or self.headers_in_progress[0] != sid:
                self.violations.append("unexpected CONTINUATION")
                return
            self.headers_in_progress[1] += payload
            if flags & FLAG_END_HEADERS:
                self._headers_done()
            return
        if ftype == DATA:
            s = self.streams.get(sid)
            if s is None or s.headers is None:
                self.violations.append(f"DATA on idle stream {sid}")
                return
            n = len(payload)
            body = payload
            if flags & FLAG_PADDED:
                body = payload[1:len(payload) - payload[0]]
            if s.end_stream or s.reset_by_client:
                self.violations.append(f"DATA on stream {sid} after END_STREAM/RST")
            if n > s.recv_window:
                self.violations.append(f"DATA of {n} bytes on stream {sid} overdraws the stream window {s.recv_window}")
            if n > self.conn_recv_window:
                self.violations.append(f"DATA of {n} bytes on stream {sid} overdraws the connection window {self.conn_recv_window}")
            s.recv_window -= n
            self.conn_recv_window -= n
            s.body += body
            s.data_frames.append(n)
            if flags & FLAG_END_STREAM:
                s.end_stream = True
                s.end_count += 1
                self.server.request_complete(self, s)
            return
        if ftype == WINDOW_UPDATE:
            inc = int.from_bytes(payload[:4], "big") & 0x7FFFFFFF
            if sid == 0:
                self.conn_send_window += inc
                self.conn_credit_returned += inc
            else:
                s = self.streams.get(sid)
                if s is not None:
                    s.send_window += inc
                    s.credit_returned += inc
            self._flush_pending()
            return
        if ftype == RST_STREAM:
            s = self.streams.get(sid)
            if s is None:
                self.violations.append(f"RST_STREAM on idle stream {sid}")
                return
            s.reset_by_client = True
            s.closed = True
            return
        if ftype == PING:
            if not flags & FLAG_ACK:
                self.out(frame(PING, FLAG_ACK, 0, payload))
            return
        if ftype == GOAWAY:
            self.goaway_from_client = payload
            return
        if ftype == PRIORITY:
            return
        if ftype == PUSH_PROMISE:
            self.violations.append("client sent PUSH_PROMISE")
            return
        # unknown frame types are ignored

    def _headers_done(self):
        sid, block, flags = self.headers_in_progress
        self.headers_in_progress = None
        try:
            hdrs = self.decoder.decode(bytes(block), raw=True)
        except Exception as e:
            self.violations.append(f"HPACK decode error {type(e).__name__}: {e}")
            # connection error COMPRESSION_ERROR: GOAWAY and close, as a real server does
            self.send_goaway(self.highest_sid, 9)
            self.tr.shutdown()
            return
        hdrs = [(bytes(k), bytes(v)) for k, v in hdrs]
        s = self.streams.get(sid)
        if s is not None and s.headers is not None:
            # trailers
            if not flags & FLAG_END_STREAM:
                self.violations.append(f"second HEADERS on stream {sid} without END_STREAM")
            s.end_stream = True
            s.end_count += 1
            self.server.request_complete(self, s)
            return
        if sid % 2 == 0 or sid <= self.highest_sid:
            self.violations.append(f"bad new stream id {sid} (highest {self.highest_sid})")
        self.highest_sid = max(self.highest_sid, sid)
        if self.goaway_sent is not None and sid > self.goaway_sent[0] and self.tr.read_total - getattr(self, "read_base", 0) >= self.goaway_sent[1]:
            self.violations.append(f"stream {sid} opened after the client read GOAWAY(last_stream_id={self.goaway_sent[0]})")
        s = StreamRec(sid, self.adv[S_INITIAL_WINDOW_SIZE])
        s.send_window = self.client_initial_window
        s.headers = hdrs
        self.streams[sid] = s
        self.order.append(sid)
        nopen = len(self.open_streams())
        self.max_open_seen = max(self.max_open_seen, nopen)
        self.open_at_headers.append((sid, nopen, self.effective_limit()))
        m = None
        for k, v in hdrs:
            if k == b":path":
                m = re.match(rb"^/t/([A-Za-z0-9_.-]+)", v)
        s.token = m.group(1) if m else None
        self.server.request_head(self, s)
        if flags & FLAG_END_STREAM:
            s.end_stream = True
            s.end_count += 1
            self.server.request_complete(self, s)

    # ------------------------------------------------------------ emitting
    def send_headers(self, sid, headers, end_stream=False, split=None):
        block = self.encoder.encode(headers)
        fl = FLAG_END_STREAM if end_stream else 0
        if split and len(block) > split:
            self.out(frame(HEADERS, fl, sid, block[:split]))
            self.out(frame(CONTINUATION, FLAG_END_HEADERS, sid, block[split:]))
        else:
            self.out(frame(HEADERS, fl | FLAG_END_HEADERS, sid, block))
        s = self.streams.get(sid)
        if s is not None:
            s.responded = True
            if end_stream:
                self._server_ended(s)

    def _server_ended(self, s):
        s.resp_sent_end = True
        if s.end_stream or s.reset_by_client:
            s.closed = True
        else:
            # response finished before the request: the stream is half-closed (local); RFC 9113 8.1 lets the
            # server then RST_STREAM(NO_ERROR); by our books it stays open until the client ends or resets it
            pass

    def send_data(self, sid, data: bytes, end_stream=False, frame_size=None, padded=0):
        """Queue response body bytes; they leave as DATA frames as far as the client's windows allow."""
        s = self.streams[sid]
        s.pending_out += data
        s.pending_end = s.pending_end or end_stream
        s._frame_size = frame_size
        s._padded = padded
        self._flush_pending()

    def _flush_pending(self):
        maxf = self.client_settings.get(S_MAX_FRAME_SIZE, 16384)
        for sid in self.order:
            s = self.streams[sid]
            if s.resp_sent_end:
                continue
            fs = min(getattr(s, "_frame_size", None) or maxf, maxf)
            while s.pending_out:
                pad = getattr(s, "_padded", 0)
                room = min(s.send_window, self.conn_send_window, fs) - (pad + 1 if pad else 0)
                if room <= 0:
                    break
                chunk = bytes(s.pending_out[:room])
                del s.pending_out[:len(chunk)]
                last = not s.pending_out and s.pending_end
                fl = FLAG_END_STREAM if last else 0
                if pad:
                    payload = bytes([pad]) + chunk + b"\x00" * pad
                    fl |= FLAG_PADDED
                else:
                    payload = chunk
                s.send_window -= len(payload)
                self.conn_send_window -= len(payload)
                self.out(frame(DATA, fl, sid, payload))
                if last:
                    self._server_ended(s)
            if not s.pending_out and s.pending_end and not s.resp_sent_end:
                self.out(frame(DATA, FLAG_END_STREAM, sid, b""))
                self._server_ended(s)

    def send_rst(self, sid, code=8):
        self.out(frame(RST_STREAM, 0, sid, code.to_bytes(4, "big")))
        s = self.streams.get(sid)
        if s is not None:
            s.closed = True
            s.resp_sent_end = True

    def send_goaway(self, last_sid, code=0):
        self.out(frame(GOAWAY, 0, 0, (last_sid & 0x7FFFFFFF).to_bytes(4, "big") + code.to_bytes(4, "big")))
        self.goaway_sent = (last_sid, self.sent_total)

    def send_window_update(self, sid, inc):
        self.out(frame(WINDOW_UPDATE, 0, sid, inc.to_bytes(4, "big")))
        if sid == 0:
            self.conn_recv_window += inc
        else:
            s = self.streams.get(sid)
            if s is not None:
                s.recv_window += inc

    def send_ping(self, data=b"\x00" * 8):
        self.pings += 1
        self.out(frame(PING, 0, 0, data))

    def blocked_uploads(self):
        """Streams whose request body is not finished."""
        return [s for s in self.streams.values() if s.headers is not None and not s.end_stream and not s.closed]


class H2Server:
    """Policy object shared by the connections of one origin.

    cfg keys: max_streams, initial_window, max_frame, auto_settings (send SETTINGS
    right after the preface), settings_at_connect, respond ("auto" | "manual"),
    data_frame_size, split_headers, window_policy ("auto" = replenish what was consumed,
    "manual" = only on explicit events), body (callable token->bytes)
    """

    def __init__(self, **cfg):
        self.cfg = cfg
        self.conns: list[H2Conn] = []
        self.seen: list = []      # (conn index, sid, token) at request head, in arrival order

    def new_conn(self):
        return H2Conn(self)

    def body_for(self, token):
        f = self.cfg.get("body")
        if f is not None:
            return f(token)
        return b"<" + (token or b"?") + b">"

    def request_head(self, conn, s):
        self.seen.append((self.conns.index(conn), s.id, s.token))

    def request_complete(self, conn, s):
        if self.cfg.get("respond", "auto") == "auto":
            self.respond(conn, s)

    def respond(self, conn, s, status=b"200"):
        if s.responded or s.closed and s.reset_by_client:
            return
        body = self.body_for(s.token)
        if dict(s.headers).get(b":method") == b"HEAD":
            conn.send_headers(s.id, [(b":status", status), (b"x-echo", s.token or b"?")], end_stream=True)
            return
        conn.send_headers(s.id, [(b":status", status), (b"x-echo", s.token or b"?")], end_stream=False,
                          split=self.cfg.get("split_headers"))
        conn.send_data(s.id, body, end_stream=True, frame_size=self.cfg.get("data_frame_size"))

    def after_input(self, conn):
        # automatic window replenishment for uploads
        if self.cfg.get("window_policy", "auto") == "auto":
            iw = conn.adv[S_INITIAL_WINDOW_SIZE]
            if conn.conn_recv_window < 32768:
                conn.send_window_update(0, 65535 - conn.conn_recv_window)
            for s in conn.blocked_uploads():
                if s.recv_window < max(1, iw // 2):
                    conn.send_window_update(s.id, iw - s.recv_window)


class AutoConn(Peer):
    """Origin connection that speaks HTTP/2 if the client sends the preface, HTTP/1.1 otherwise;
    selects ALPN according to `alpn_policy` ("h2" | "http/1.1" | None) but only among what was offered."""

    def __init__(self, auto):
        self.auto = auto
        self.inner = None
        self.tr = None
        self.tls = []
        self.first = bytearray()
        self.proto = None

    def _mc_state(self):
        return ("auto", self.proto, bytes(self.first) if self.inner is None else b"", self.inner)

    def on_connect(self, tr):
        self.tr = tr
        self.auto.conns.append(self)

    def on_tls(self, tr, sni, alpn_offered):
        pol = self.auto.alpn_policy
        sel = pol if pol in alpn_offered else None
        self.tls.append({"sni": sni, "offered": list(alpn_offered), "selected": sel})
        return sel

    def on_data(self, tr, data):
        if self.inner is None:
            self.first += data
            if len(self.first) < 4 and PREFACE.startswith(bytes(self.first)):
                return
            if bytes(self.first[:4]) == b"PRI ":
                self.proto = "h2"
                self.inner = self.auto.h2.new_conn()
            else:
                self.proto = "h1"
                self.inner = self.auto.h1.new_conn()
            self.inner.on_connect(tr)
            data = bytes(self.first)
        self.inner.on_data(tr, data)

    def on_client_read(self, tr, n):
        if self.inner is not None:
            self.inner.on_client_read(tr, n)

    def on_client_close(self, tr):
        if self.inner is not None:
            self.inner.on_client_close(tr)


class AutoServer:
    def __init__(self, h1, h2, alpn_policy):
        self.h1 = h1
        self.h2 = h2
        self.alpn_policy = alpn_policy
        self.conns: list[AutoConn] = []

    def new_conn(self):
        return AutoConn(self)
