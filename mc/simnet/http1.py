"""Independent HTTP/1.1 peers: strict request parser (not h11), token-echo server,
scripted server, CONNECT / forwarding proxy."""
from __future__ import annotations

import re

from .core import TLSFailure

TOKEN_RE = re.compile(rb"^[!#$%&'*+\-.^_`|~0-9A-Za-z]+$")
# field-value: visible ASCII, SP, HTAB, obs-text; no CR/LF/NUL
FIELD_VALUE_RE = re.compile(rb"^[\x21-\x7e\x80-\xff]([\x20\x09\x21-\x7e\x80-\xff]*[\x21-\x7e\x80-\xff])?$|^$")
TARGET_RE = re.compile(rb"^[\x21-\x7e]+$")


class Peer:
    def on_connect(self, tr): pass
    def on_tls(self, tr, sni, alpn_offered): return None
    def on_data(self, tr, data): pass
    def on_client_read(self, tr, n): pass
    def on_client_close(self, tr): pass


class ParsedRequest:
    def __init__(self):
        self.method = None
        self.target = None
        self.version = None
        self.headers: list[tuple[bytes, bytes]] = []
        self.body = bytearray()
        self.framing = "none"      # none | cl | chunked
        self.chunk_sizes: list[int] = []
        self.head_complete = False
        self.complete = False
        self.first_byte_at = None   # offset in the transport's written stream
        self.end_at = None
        self.head_raw = b""

    def header(self, name: bytes):
        name = name.lower()
        return [v for k, v in self.headers if k.lower() == name]

    def summary(self):
        return {"method": self.method, "target": self.target, "headers": self.headers, "body": bytes(self.body),
                "framing": self.framing, "chunks": self.chunk_sizes, "complete": self.complete}


class H1RequestParser:
    """Incremental, strict.  Errors are collected, never raised."""

    def __init__(self):
        self.buf = bytearray()
        self.pos = 0               # absolute offset of buf[0]
        self.cur: ParsedRequest | None = None
        self.state = "head"        # head | cl | chunk-size | chunk-data | chunk-crlf | trailers | raw
        self.remaining = 0
        self.requests: list[ParsedRequest] = []
        self.errors: list[str] = []
        self.raw_tail = bytearray()

    def err(self, msg):
        self.errors.append(msg)
        self.state = "raw"

    def feed(self, data: bytes):
        """Returns list of ("head", req) / ("complete", req) events."""
        events = []
        self.buf += data
        while True:
            if self.state == "raw":
                self.raw_tail += self.buf
                self.pos += len(self.buf)
                del self.buf[:]
                return events
            if self.state == "head":
                if not self.buf:
                    return events
                if self.cur is None:
                    self.cur = ParsedRequest()
                    self.cur.first_byte_at = self.pos
                    self.requests.append(self.cur)
                i = self.buf.find(b"\r\n\r\n")
                if i < 0:
                    return events
                head = bytes(self.buf[: i + 4])
                self._consume(i + 4)
                self._parse_head(head)
                if self.state == "raw":
                    continue
                events.append(("head", self.cur))
                if self.state == "head":       # no body
                    events.append(("complete", self._finish()))
                continue
            if self.state == "cl":
                if not self.buf:
                    return events
                n = min(self.remaining, len(self.buf))
                self.cur.body += self.buf[:n]
                self._consume(n)
                self.remaining -= n
                if self.remaining == 0:
                    events.append(("complete", self._finish()))
                continue
            if self.state == "chunk-size":
                i = self.buf.find(b"\r\n")
                if i < 0:
                    return events
                line = bytes(self.buf[:i])
                self._consume(i + 2)
                size_s = line.split(b";", 1)[0].strip()
                if not re.match(rb"^[0-9a-fA-F]+$", size_s):
                    self.err(f"bad chunk size line {line!r}")
                    continue
                n = int(size_s, 16)
                self.cur.chunk_sizes.append(n)
                if n == 0:
                    self.state = "trailers"
                else:
                    self.remaining = n
                    self.state = "chunk-data"
                continue
            if self.state == "chunk-data":
                if not self.buf:
                    return events
                n = min(self.remaining, len(self.buf))
                self.cur.body += self.buf[:n]
                self._consume(n)
                self.remaining -= n
                if self.remaining == 0:
                    self.state = "chunk-crlf"
                continue
            if self.state == "chunk-crlf":
                if len(self.buf) < 2:
                    return events
                if bytes(self.buf[:2]) != b"\r\n":
                    self.err("chunk data not followed by CRLF")
                    continue
                self._consume(2)
                self.state = "chunk-size"
                continue
            if self.state == "trailers":
                i = self.buf.find(b"\r\n")
                if i < 0:
                    return events
                line = bytes(self.buf[:i])
                self._consume(i + 2)
                if line == b"":
                    events.append(("complete", self._finish()))
                continue
            raise AssertionError(self.state)

    def _consume(self, n):
        del self.buf[:n]
        self.pos += n

    def _finish(self):
        r = self.cur
        r.complete = True
        r.end_at = self.pos
        self.cur = None
        self.state = "head"
        return r

    def _parse_head(self, head: bytes):
        r = self.cur
        r.head_raw = head
        lines = head[:-4].split(b"\r\n")
        rl = lines[0]
        parts = rl.split(b" ")
        if len(parts) != 3:
            return self.err(f"bad request line {rl!r}")
        r.method, r.target, r.version = parts
        if not TOKEN_RE.match(r.method):
            return self.err(f"bad method {r.method!r}")
        if not TARGET_RE.match(r.target):
            return self.err(f"bad target {r.target!r}")
        if r.version != b"HTTP/1.1":
            return self.err(f"bad version {r.version!r}")
        for ln in lines[1:]:
            if b":" not in ln:
                return self.err(f"bad header line {ln!r}")
            k, v = ln.split(b":", 1)
            if not TOKEN_RE.match(k):
                return self.err(f"bad header name {k!r}")
            v = v.strip(b" \t")
            if b"\r" in v or b"\n" in v or b"\x00" in v:
                return self.err(f"bad header value {v!r}")
            r.headers.append((k, v))
        r.head_complete = True
        te = r.header(b"transfer-encoding")
        cl = r.header(b"content-length")
        if te:
            if [x.strip().lower() for x in b",".join(te).split(b",")][-1] != b"chunked":
                return self.err("transfer-encoding without final chunked")
            r.framing = "chunked"
            self.state = "chunk-size"
        elif cl:
            if len(set(cl)) != 1 or not re.match(rb"^[0-9]+$", cl[0]):
                return self.err(f"bad content-length {cl!r}")
            r.framing = "cl"
            self.remaining = int(cl[0])
            self.state = "cl" if self.remaining else "head"
        else:
            self.state = "head"


# ------------------------------------------------------------------ servers


class H1Conn(Peer):
    """One server-side HTTP/1.1 connection: parses requests, answers through `responder`.

    responder(req, conn) -> dict(data=bytes, close=bool) | None, called at event
    "head" (when respond_at == "head") or "complete".
    Keeps the accounting used by the reuse oracle of C01.
    """

    def __init__(self, server, responder, respond_at="complete", alpn=None, tls_ok=True):
        self.server = server
        self.responder = responder
        self.respond_at = respond_at
        self.alpn = alpn
        self.tls_ok = tls_ok
        self.parser = H1RequestParser()
        self.responses_sent = 0
        self.response_bytes = 0
        self.reuse_violations: list[str] = []
        self.tr = None
        self.closed_by_client = False
        self.tls = []

    def _mc_state(self):
        p = self.parser
        cur = p.cur
        return ("h1conn", p.state, bytes(p.buf), p.remaining, len(p.requests), None if cur is None else (cur.head_complete, len(cur.body)),
                self.responses_sent, self.closed_by_client, len(self.reuse_violations), len(p.errors), self.respond_at)

    def on_connect(self, tr):
        self.tr = tr
        self.server.conns.append(self)

    def on_tls(self, tr, sni, alpn_offered):
        if not self.tls_ok:
            raise TLSFailure("handshake refused by peer")
        sel = self.alpn if (self.alpn in alpn_offered) else None
        if self.alpn == "h2!":      # misbehaving peer: selects h2 although not offered (not used by default)
            sel = "h2"
        self.tls.append((sni, tuple(alpn_offered), sel))
        return sel

    def on_data(self, tr, data):
        p = self.parser
        # reuse oracle: a new request begins although the previous exchange is not finished
        if p.cur is None and p.state == "head" and not p.buf and data:
            if p.requests:
                prev = p.requests[-1]
                if not prev.complete:
                    self.reuse_violations.append("new request bytes while previous request incomplete")
                if len(tr.inbound) > 0:
                    self.reuse_violations.append(
                        f"new request written while {len(tr.inbound)} response bytes of the previous exchange are unread")
                if self.responses_sent < len(p.requests):
                    self.reuse_violations.append("new request written before the previous response was sent")
        nerr = len(p.errors)
        evs = p.feed(data)
        if len(p.errors) > nerr and not tr.peer_eof:
            # what a real server does with garbage: 400 and close
            tr.send(b"HTTP/1.1 400 Bad Request\r\nConnection: close\r\nContent-Length: 0\r\n\r\n")
            tr.shutdown()
        for ev, req in evs:
            if ev == self.respond_at or (ev == "complete" and getattr(req, "_answered", False) is False and self.respond_at == "head" and False):
                self._respond(tr, req)

    def _respond(self, tr, req):
        req._answered = True
        self.server.seen.append((tr.id, req))
        ans = self.responder(req, self)
        if ans is None:
            return
        self.responses_sent += 1
        tr.send(ans["data"])
        if ans.get("close"):
            tr.shutdown()

    def on_client_close(self, tr):
        self.closed_by_client = True


class H1Server:
    """Shared state of one simulated origin (all its connections)."""

    def __init__(self, responder, respond_at="complete", alpn=None, tls_ok=True, name="origin"):
        self.responder = responder
        self.respond_at = respond_at
        self.alpn = alpn
        self.tls_ok = tls_ok
        self.name = name
        self.conns: list[H1Conn] = []
        self.seen: list = []     # (transport id, request) in arrival order

    def new_conn(self):
        return H1Conn(self, self.responder, self.respond_at, self.alpn, self.tls_ok)


def token_of(req: ParsedRequest):
    m = re.match(rb"^(?:[a-z]+://[^/]+)?/t/([A-Za-z0-9_.-]+)", req.target or b"")
    return m.group(1) if m else None


def echo_response(token: bytes, framing: str = "cl", status: int = 200, extra=b"") -> dict:
    body = b"<" + token + b">"
    hdr = b"X-Echo: " + token + b"\r\n" + extra
    if framing == "cl":
        return {"data": b"HTTP/1.1 %d OK\r\n%sContent-Length: %d\r\n\r\n%s" % (status, hdr, len(body), body)}
    if framing == "chunked":
        half = len(body) // 2
        chunks = b"%x\r\n%s\r\n%x\r\n%s\r\n0\r\n\r\n" % (half, body[:half], len(body) - half, body[half:])
        return {"data": b"HTTP/1.1 %d OK\r\n%sTransfer-Encoding: chunked\r\n\r\n%s" % (status, hdr, chunks)}
    if framing == "close":        # close-delimited body
        return {"data": b"HTTP/1.1 %d OK\r\n%s\r\n%s" % (status, hdr, body), "close": True}
    if framing == "connclose":
        return {"data": b"HTTP/1.1 %d OK\r\n%sConnection: close\r\nContent-Length: %d\r\n\r\n%s" % (status, hdr, len(body), body), "close": True}
    if framing == "http10":
        return {"data": b"HTTP/1.0 %d OK\r\n%sContent-Length: %d\r\n\r\n%s" % (status, hdr, len(body), body), "close": True}
    if framing == "interim":
        return {"data": b"HTTP/1.1 103 Early Hints\r\nLink: </x>\r\n\r\nHTTP/1.1 %d OK\r\n%sContent-Length: %d\r\n\r\n%s" % (status, hdr, len(body), body)}
    if framing == "nobody":
        return {"data": b"HTTP/1.1 204 No Content\r\n%s\r\n" % hdr}
    raise ValueError(framing)


def echo_body(token: bytes) -> bytes:
    return b"<" + token + b">"


def make_echo_responder(framing="cl"):
    def responder(req, conn):
        tok = token_of(req) or b"?"
        if req.method == b"HEAD":
            return {"data": b"HTTP/1.1 200 OK\r\nX-Echo: " + tok + b"\r\nContent-Length: %d\r\n\r\n" % len(echo_body(tok))}
        return echo_response(tok, framing)
    return responder


class ScriptConn(Peer):
    """Sends a fixed byte script once the first request is complete (or at once)."""

    def _mc_state(self):
        p = self.parser
        return ("script", self.sent, p.state, bytes(p.buf), p.remaining, len(p.requests))

    def __init__(self, script: bytes, eof: bool, when="complete", alpn=None):
        self.script = script
        self.eof = eof
        self.when = when
        self.alpn = alpn
        self.parser = H1RequestParser()
        self.sent = False
        self.got = bytearray()

    def on_connect(self, tr):
        if self.when == "connect":
            self._go(tr)

    def on_tls(self, tr, sni, alpn_offered):
        return self.alpn if self.alpn in alpn_offered else None

    def _go(self, tr):
        if not self.sent:
            self.sent = True
            tr.send(self.script)
            if self.eof:
                tr.shutdown()

    def on_data(self, tr, data):
        self.got += data
        if self.when == "data":
            self._go(tr)
            return
        for ev, req in self.parser.feed(data):
            if ev == self.when:
                self._go(tr)


# ------------------------------------------------------------------ proxies


class ProxyConn(Peer):
    """HTTP proxy connection: answers CONNECT (then tunnels to an inner peer made by
    `router`), or serves absolute-form requests as a forwarding proxy through
    `forward_responder`."""

    def _mc_state(self):
        p = self.parser
        return ("proxyconn", p.state, bytes(p.buf), self.inner, self.fwd, self.refused, self.tunnel_target)

    def __init__(self, proxy):
        self.proxy = proxy
        self.parser = H1RequestParser()
        self.inner = None
        self.tunnel_target = None
        self.pre_tunnel = bytearray()     # every byte seen before the tunnel was established
        self.in_tunnel = bytearray()
        self.connect_req = None
        self.tr = None
        self.proxy_tls = []
        self.refused = False
        self.bytes_after_refusal = 0
        self.fwd = None

    def on_connect(self, tr):
        self.tr = tr
        self.proxy.conns.append(self)

    def on_tls(self, tr, sni, alpn_offered):
        if self.inner is not None:
            return self.inner.on_tls(tr, sni, alpn_offered)
        if not self.proxy.tls_ok:
            raise TLSFailure("proxy handshake refused")
        self.proxy_tls.append((sni, tuple(alpn_offered)))
        return self.proxy.alpn if self.proxy.alpn in alpn_offered else None

    def on_data(self, tr, data):
        if self.inner is not None:
            self.in_tunnel += data
            self.inner.on_data(tr, data)
            return
        if self.refused:
            self.bytes_after_refusal += len(data)
            return
        if self.fwd is not None:
            self.pre_tunnel += data
            self.fwd.on_data(tr, data)
            return
        self.pre_tunnel += data
        for ev, req in self.parser.feed(data):
            if ev == "head" and req.method == b"CONNECT":
                self.connect_req = req
                reply = self.proxy.connect_reply(req)
                tr.send(reply["data"])
                if reply.get("ok"):
                    host, _, port = req.target.rpartition(b":")
                    self.tunnel_target = (host.decode("latin1"), int(port) if port.isdigit() else port)
                    self.inner = self.proxy.router("tunnel", self.tunnel_target[0], self.tunnel_target[1])
                    self.inner.on_connect(tr)
                    rest = bytes(self.parser.buf)
                    del self.parser.buf[:]
                    if rest:
                        self.in_tunnel += rest
                        self.inner.on_data(tr, rest)
                else:
                    self.refused = True
                    if reply.get("close"):
                        tr.shutdown()
                return
            if ev == "head":
                # forwarding: hand the connection to an H1Conn of the forward server, replaying bytes
                self.fwd = self.proxy.forward_server.new_conn()
                self.fwd.on_connect(tr)
                self.fwd.on_data(tr, bytes(self.pre_tunnel))
                return

    def on_client_read(self, tr, n):
        if self.inner is not None:
            self.inner.on_client_read(tr, n)

    def on_client_close(self, tr):
        if self.inner is not None:
            self.inner.on_client_close(tr)
        if self.fwd is not None:
            self.fwd.on_client_close(tr)


class HTTPProxy:
    def __init__(self, router, forward_server=None, connect_status=200, reason=b"Connection established",
                 extra_headers=b"", alpn=None, tls_ok=True, interim=False, close_on_refusal=False):
        self.router = router
        self.forward_server = forward_server
        self.connect_status = connect_status
        self.reason = reason
        self.extra_headers = extra_headers
        self.alpn = alpn
        self.tls_ok = tls_ok
        self.interim = interim
        self.close_on_refusal = close_on_refusal
        self.conns: list[ProxyConn] = []

    def new_conn(self):
        return ProxyConn(self)

    def connect_reply(self, req):
        st = self.connect_status
        data = b""
        if self.interim:
            data += b"HTTP/1.1 100 Continue\r\n\r\n"
        ok = 200 <= st <= 299
        data += b"HTTP/1.1 %d %s\r\n%s" % (st, self.reason, self.extra_headers)
        if not ok:
            data += b"Content-Length: 0\r\n"
        data += b"\r\n"
        return {"data": data, "ok": ok, "close": self.close_on_refusal and not ok}


# ------------------------------------------------------------------ SOCKS5 proxy (RFC 1928 / 1929), byte level


class Socks5Conn(Peer):
    """States: greeting -> [auth] -> request -> tunnel | failed."""

    def _mc_state(self):
        return ("socksconn", self.state, bytes(self.buf), self.inner, len(self.errors))

    def __init__(self, proxy):
        self.proxy = proxy
        self.buf = bytearray()
        self.state = "greeting"
        self.inner = None
        self.offered_methods = None
        self.userpass = None
        self.request = None           # (cmd, atyp, addr, port)
        self.errors: list[str] = []
        self.pre_tunnel = bytearray()
        self.in_tunnel = bytearray()
        self.early_bytes = 0          # bytes that arrived before the negotiation step they belong to was answered
        self.tr = None

    def on_connect(self, tr):
        self.tr = tr
        self.proxy.conns.append(self)

    def on_tls(self, tr, sni, alpn_offered):
        if self.inner is not None:
            return self.inner.on_tls(tr, sni, alpn_offered)
        self.errors.append("TLS started with the SOCKS proxy itself before the tunnel exists")
        return None

    def on_data(self, tr, data):
        if self.state == "tunnel":
            self.in_tunnel += data
            self.inner.on_data(tr, data)
            return
        self.pre_tunnel += data
        self.buf += data
        if self.state == "failed":
            return
        p = self.proxy
        if self.state == "greeting":
            if len(self.buf) < 2 or len(self.buf) < 2 + self.buf[1]:
                return
            if self.buf[0] != 5:
                self.errors.append(f"greeting version {self.buf[0]}")
            n = self.buf[1]
            self.offered_methods = list(self.buf[2:2 + n])
            del self.buf[:2 + n]
            tr.send(p.method_reply)
            if p.method_reply[1:2] == b"\x02":
                self.state = "auth"
            elif p.method_reply[1:2] == b"\x00":
                self.state = "request"
            else:
                self.state = "failed"
            if self.buf:
                self.early_bytes += len(self.buf)
        if self.state == "auth":
            if len(self.buf) < 2:
                return
            ul = self.buf[1]
            if len(self.buf) < 3 + ul:
                return
            pl = self.buf[2 + ul]
            if len(self.buf) < 3 + ul + pl:
                return
            if self.buf[0] != 1:
                self.errors.append(f"auth version {self.buf[0]}")
            self.userpass = (bytes(self.buf[2:2 + ul]), bytes(self.buf[3 + ul:3 + ul + pl]))
            del self.buf[:3 + ul + pl]
            tr.send(p.auth_reply)
            self.state = "request" if p.auth_reply[1:2] == b"\x00" else "failed"
            if self.buf:
                self.early_bytes += len(self.buf)
        if self.state == "request":
            if len(self.buf) < 5:
                return
            ver, cmd, rsv, atyp = self.buf[0], self.buf[1], self.buf[2], self.buf[3]
            if atyp == 1:
                need = 4 + 4 + 2
            elif atyp == 4:
                need = 4 + 16 + 2
            elif atyp == 3:
                need = 4 + 1 + self.buf[4] + 2
            else:
                self.errors.append(f"bad atyp {atyp}")
                self.state = "failed"
                return
            if len(self.buf) < need:
                return
            if ver != 5 or rsv != 0:
                self.errors.append(f"request ver={ver} rsv={rsv}")
            if atyp == 3:
                addr = bytes(self.buf[5:5 + self.buf[4]])
            else:
                addr = bytes(self.buf[4:need - 2])
            port = int.from_bytes(self.buf[need - 2:need], "big")
            self.request = (cmd, atyp, addr, port)
            del self.buf[:need]
            tr.send(p.connect_reply)
            if p.connect_reply[1:2] == b"\x00" and len(p.connect_reply) >= 10:
                host = addr.decode("latin1") if atyp == 3 else ".".join(str(b) for b in addr) if atyp == 1 else addr.hex()
                self.inner = p.router("socks-tunnel", host, port)
                self.inner.on_connect(tr)
                self.state = "tunnel"
                if self.buf:
                    self.early_bytes += len(self.buf)
                    rest = bytes(self.buf)
                    del self.buf[:]
                    self.in_tunnel += rest
                    self.inner.on_data(tr, rest)
            else:
                self.state = "failed"

    def on_client_read(self, tr, n):
        if self.inner is not None:
            self.inner.on_client_read(tr, n)

    def on_client_close(self, tr):
        if self.inner is not None:
            self.inner.on_client_close(tr)


class Socks5Proxy:
    def __init__(self, router, method_reply=b"\x05\x00", auth_reply=b"\x01\x00",
                 connect_reply=b"\x05\x00\x00\x01\x7f\x00\x00\x01\x04\x38"):
        self.router = router
        self.method_reply = method_reply
        self.auth_reply = auth_reply
        self.connect_reply = connect_reply
        self.conns: list[Socks5Conn] = []

    def new_conn(self):
        return Socks5Conn(self)
