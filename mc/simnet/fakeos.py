"""OS / runtime level fakes under the *real* httpcore backends.

httpcore/_backends/{sync,anyio,trio}.py are thin but they own two things the properties rely on: the
exception maps (OS / runtime exception -> documented httpcore exception) and the application of the
timeout to the blocking operation.  To put them inside the explored path the names `socket`, `anyio`
and `trio` (and `is_socket_readable`) are re-bound in those three modules, in the checker's process
only, to the namespaces below.  The fake sockets / streams are backed by the simulated network
(mc.simnet.core), so the whole stack pool -> connection -> real backend -> fake socket -> simulated
peer runs, every OS-level operation is a ledger entry carrying the timeout *in effect at that
operation*, and the environment may answer it with an OS / runtime level exception.

Alphabet of failures per runtime (what the real thing documents / does):
  sync   socket.create_connection: TimeoutError (socket.timeout), ConnectionRefusedError, gaierror, OSError
         SSLContext.wrap_socket:   TimeoutError, ssl.SSLError, ssl.SSLCertVerificationError, ConnectionResetError
         recv / send:              TimeoutError, ConnectionResetError / BrokenPipeError, ssl.SSLError (TLS layers)
  anyio  connect_tcp:              TimeoutError (fail_after), OSError, ConnectionRefusedError, gaierror
         TLSStream.wrap:           TimeoutError, ssl.SSLError, ssl.SSLCertVerificationError, BrokenResourceError, EndOfStream
         receive / send:           TimeoutError, BrokenResourceError, ClosedResourceError,
                                   ssl.SSLError on TLS layers (TLSStream._call_sslobject_method re-raises it)
         end of stream = EndOfStream
  trio   open_tcp_stream:          TooSlowError (fail_after), OSError, ConnectionRefusedError, gaierror
         SSLStream.do_handshake:   TooSlowError, BrokenResourceError (trio wraps ssl errors in it)
         receive_some / send_all:  TooSlowError, BrokenResourceError, ClosedResourceError
"""
from __future__ import annotations

import contextlib
import socket as real_socket
import ssl as real_ssl
import types

from . import core as sim

NO_SCOPE = "NO-TIMEOUT-APPLIED"      # an operation issued outside any fail_after() / before any settimeout()

CURRENT = [None]                     # the SimBackend / AsyncSimBackend of the running execution
_SCOPES: list = []                   # stack of fail_after() delays (async runtimes)


def _cur_timeout():
    return _SCOPES[-1] if _SCOPES else NO_SCOPE


# ------------------------------------------------------------------ failure alphabet

def _register_faults():
    import anyio
    import trio
    os_level = {
        "TimeoutError": TimeoutError, "ConnectionRefusedError": ConnectionRefusedError, "ConnectionResetError": ConnectionResetError,
        "BrokenPipeError": BrokenPipeError, "OSError": OSError, "gaierror": real_socket.gaierror,
        "ssl.SSLError": real_ssl.SSLError, "ssl.SSLCertVerificationError": real_ssl.SSLCertVerificationError,
        "anyio.BrokenResourceError": anyio.BrokenResourceError, "anyio.ClosedResourceError": anyio.ClosedResourceError,
        "anyio.EndOfStream": anyio.EndOfStream,
        "trio.TooSlowError": trio.TooSlowError, "trio.BrokenResourceError": trio.BrokenResourceError,
        "trio.ClosedResourceError": trio.ClosedResourceError,
    }
    for fk in ("connect", "start_tls", "read", "write"):
        for k, v in os_level.items():
            sim.FAULTS[fk].setdefault(k, v)


SOFT = {"TimeoutError", "trio.TooSlowError"}        # the operation timed out: the peer is still there

ALPHABET = {
    "sync": {"connect": ["TimeoutError", "ConnectionRefusedError", "gaierror", "OSError"],
             "start_tls": ["TimeoutError", "ssl.SSLError", "ssl.SSLCertVerificationError", "ConnectionResetError"],
             "read": ["TimeoutError", "ConnectionResetError"], "write": ["TimeoutError", "BrokenPipeError", "ConnectionResetError"],
             "read_tls": ["ssl.SSLError"], "write_tls": ["ssl.SSLError"]},
    "anyio": {"connect": ["TimeoutError", "OSError", "ConnectionRefusedError", "gaierror"],
              "start_tls": ["TimeoutError", "ssl.SSLError", "ssl.SSLCertVerificationError", "anyio.BrokenResourceError", "anyio.EndOfStream"],
              "read": ["TimeoutError", "anyio.BrokenResourceError", "anyio.ClosedResourceError"],
              "write": ["TimeoutError", "anyio.BrokenResourceError", "anyio.ClosedResourceError"],
              "read_tls": ["ssl.SSLError"], "write_tls": ["ssl.SSLError"]},
    "trio": {"connect": ["trio.TooSlowError", "OSError", "ConnectionRefusedError", "gaierror"],
             "start_tls": ["trio.TooSlowError", "trio.BrokenResourceError"],
             "read": ["trio.TooSlowError", "trio.BrokenResourceError", "trio.ClosedResourceError"],
             "write": ["trio.TooSlowError", "trio.BrokenResourceError", "trio.ClosedResourceError"],
             "read_tls": [], "write_tls": []},
}


# ------------------------------------------------------------------ sync: the `socket` namespace

class FakeSocket:
    """Enough of socket.socket for httpcore._backends.sync, backed by a simulated stream."""

    def __init__(self, stream=None, timeout=NO_SCOPE):
        self._s = stream
        self._timeout = timeout
        self._closed = False
        self.options = []

    def _mc_state(self):
        return ("fakesock", self._s, self._timeout if self._timeout is not NO_SCOPE else "unset", self._closed)

    def settimeout(self, t):
        if self._closed or (self._s is not None and self._s._tr.closed):
            raise OSError(9, "Bad file descriptor")      # what a closed socket.socket answers
        self._timeout = t

    def setsockopt(self, *a):
        self.options.append(a)

    def connect(self, path):           # AF_UNIX
        self._s = CURRENT[0].connect_unix_socket(path, timeout=self._timeout)

    def _check(self):
        if self._closed or self._s is None or self._s._tr.closed:
            raise OSError(9, "Bad file descriptor")

    def recv(self, n):
        self._check()
        return self._s.read(n, timeout=self._timeout)

    def send(self, data):
        self._check()
        data = bytes(data)
        n = len(data)
        env = self._s._net.env
        if getattr(env, "short_writes", False) and n > 1:
            # the kernel may take any non-empty prefix; explored: everything, one byte, all but one
            menu = sorted({1, n - 1})
            k = env.chooser.choose(1 + len(menu), f"send[{n}]", cost=[0] + [1] * len(menu), fp=env.fp)
            if k:
                n = menu[k - 1]
        self._s.write(data[:n], timeout=self._timeout)
        return n

    def sendall(self, data):
        self._check()
        if data:
            self._s.write(bytes(data), timeout=self._timeout)

    def close(self):
        if not self._closed:
            self._closed = True
            if self._s is not None:
                self._s.close()

    def fileno(self):
        return -1 if self._closed else 1000 + (self._s._tr.id if self._s is not None else 0)

    def getsockname(self):
        return ("127.0.0.1", 50000)

    def getpeername(self):
        return (str(self._s._tr.host), self._s._tr.port) if self._s is not None else None


class FakeTLSSocket(FakeSocket):
    """What SSLContext.wrap_socket returns; stands in for ssl.SSLSocket in the backend's isinstance checks."""

    @property
    def _sslobj(self):
        return self._s.get_extra_info("ssl_object")


def _wrap_socket(ctx, sock, server_hostname=None, **kw):
    sock._check()
    ns = sock._s.start_tls(ctx, server_hostname, timeout=sock._timeout)
    out = FakeTLSSocket(ns, timeout=sock._timeout)
    return out


class _BioTLS:
    """What SSLContext.wrap_bio returns (TLS-in-TLS of the sync backend): an SSLObject over two memory BIOs.
    The handshake needs no bytes of its own in the simulated network (TLS is abstract there)."""

    def __init__(self, ctx, incoming, outgoing, server_hostname):
        self._ctx, self._in, self._out, self._sni = ctx, incoming, outgoing, server_hostname
        self._layer_stream = None
        self._outer_sock = None

    def do_handshake(self):
        # TLSinTLSStream built us before it stored the socket on itself; find the socket on the caller's frame
        import sys
        f = sys._getframe(1)
        while f is not None and "self" not in f.f_locals:
            f = f.f_back
        while f is not None and not hasattr(f.f_locals.get("self"), "_sock"):
            f = f.f_back
        sock = f.f_locals["self"]._sock
        self._outer_sock = sock
        self._layer_stream = sock._s.start_tls(self._ctx, self._sni, timeout=sock._timeout)

    def read(self, n):
        data = self._in.read(n)
        if data:
            return data
        if self._in.eof:
            return b""
        raise real_ssl.SSLWantReadError(real_ssl.SSL_ERROR_WANT_READ, "want read")

    def write(self, buf):
        self._out.write(bytes(buf))
        return len(buf)

    def selected_alpn_protocol(self):
        o = self._layer_stream.get_extra_info("ssl_object") if self._layer_stream is not None else None
        return o.selected_alpn_protocol() if o is not None else None


def _wrap_bio(ctx, incoming, outgoing, server_hostname=None, **kw):
    return _BioTLS(ctx, incoming, outgoing, server_hostname)


def _socket_namespace():
    ns = types.SimpleNamespace(**{k: getattr(real_socket, k) for k in dir(real_socket) if not k.startswith("__")})

    def create_connection(address, timeout=None, source_address=None, **kw):
        host, port = address
        s = CURRENT[0].connect_tcp(host, port, timeout=timeout, local_address=None if source_address is None else source_address[0])
        return FakeSocket(s, timeout=timeout)

    def socket_(family=None, type_=None, *a):
        return FakeSocket(None)
    ns.create_connection = create_connection
    ns.socket = socket_
    return ns


def _ssl_namespace():
    ns = types.SimpleNamespace(**{k: getattr(real_ssl, k) for k in dir(real_ssl) if not k.startswith("__")})
    ns.SSLSocket = FakeTLSSocket
    return ns


def _is_readable(sock):
    if sock is None or getattr(sock, "_closed", False):
        return True
    return sock._s.get_extra_info("is_readable")


# ------------------------------------------------------------------ anyio namespace

class _ScopeCancelled(BaseException):
    """How a deadline reaches the awaited operation in anyio / trio: the operation is *cancelled* (a BaseException that
    `map_exceptions` does not see); the enclosing fail_after() turns the cancellation into TimeoutError / TooSlowError when
    it exits.  So the position of fail_after relative to map_exceptions matters, exactly as in the real runtimes."""


def _make_fail_after(timeout_exc):
    @contextlib.contextmanager
    def _fail_after(delay):
        _SCOPES.append(None if delay is None or delay == float("inf") else delay)
        try:
            yield
        except _ScopeCancelled:
            raise timeout_exc() from None
        finally:
            _SCOPES.pop()
    return _fail_after


async def _deadline_aware(coro, timeout_types):
    """Runs a simulated operation; an injected timeout becomes the cancellation of the innermost deadline scope."""
    try:
        return await coro
    except timeout_types:
        if _SCOPES:
            raise _ScopeCancelled() from None
        raise


class _RawSock:
    def __init__(self, s):
        self._s = s
        self._closed = False
        self.options = []

    def setsockopt(self, *a):
        self.options.append(a)

    def is_readable(self):          # trio's socket API
        return self._s.get_extra_info("is_readable")

    def getsockname(self):
        return ("127.0.0.1", 50000)

    def getpeername(self):
        return (str(self._s._tr.host), self._s._tr.port)


def _anyio_namespace():
    import anyio as real
    import anyio.abc            # noqa: F401  (anyio resolves sub-packages lazily)
    import anyio.streams.tls    # noqa: F401

    class FakeAnyioStream:
        def __init__(self, s, tls=False):
            self._s = s
            self._tls = tls
            self._raw_socket = _RawSock(s)

        def _mc_state(self):
            return ("fakeanyio", self._s, self._tls)

        async def receive(self, max_bytes=65536):
            if self._s._tr.closed:
                raise real.ClosedResourceError
            data = await _deadline_aware(self._s.read(max_bytes, timeout=_cur_timeout()), (TimeoutError,))
            if data == b"":
                raise real.EndOfStream
            return data

        async def send(self, item):
            if self._s._tr.closed:
                raise real.ClosedResourceError
            await _deadline_aware(self._s.write(bytes(item), timeout=_cur_timeout()), (TimeoutError,))

        async def aclose(self):
            await self._s.aclose()

        def extra(self, attr, default=None):
            if attr is real.streams.tls.TLSAttribute.ssl_object:
                o = self._s.get_extra_info("ssl_object")
                return o if o is not None else default
            if attr is real.abc.SocketAttribute.raw_socket:
                return self._raw_socket
            if attr is real.abc.SocketAttribute.local_address:
                return ("127.0.0.1", 50000)
            if attr is real.abc.SocketAttribute.remote_address:
                return (str(self._s._tr.host), self._s._tr.port)
            return default

    class FakeTLSStream:
        @classmethod
        async def wrap(cls, transport_stream, *, ssl_context=None, hostname=None, standard_compatible=True, server_side=False, **kw):
            if transport_stream._s._tr.closed:
                raise real.ClosedResourceError
            ns_ = await _deadline_aware(transport_stream._s.start_tls(ssl_context, hostname, timeout=_cur_timeout()), (TimeoutError,))
            return FakeAnyioStream(ns_, tls=True)

    async def connect_tcp(remote_host, remote_port, *, local_host=None, **kw):
        s = await _deadline_aware(CURRENT[0].connect_tcp(remote_host, remote_port, timeout=_cur_timeout(), local_address=local_host), (TimeoutError,))
        return FakeAnyioStream(s)

    async def connect_unix(path):
        s = await _deadline_aware(CURRENT[0].connect_unix_socket(path, timeout=_cur_timeout()), (TimeoutError,))
        return FakeAnyioStream(s)

    async def sleep(seconds):
        await CURRENT[0].sleep(seconds)

    ns = types.SimpleNamespace(
        BrokenResourceError=real.BrokenResourceError, ClosedResourceError=real.ClosedResourceError, EndOfStream=real.EndOfStream,
        abc=real.abc, fail_after=_make_fail_after(TimeoutError), connect_tcp=connect_tcp, connect_unix=connect_unix, sleep=sleep,
        streams=types.SimpleNamespace(tls=types.SimpleNamespace(TLSStream=FakeTLSStream, TLSAttribute=real.streams.tls.TLSAttribute)))
    return ns


# ------------------------------------------------------------------ trio namespace

def _trio_namespace():
    import trio as real

    class SocketStream:
        def __init__(self, s):
            self._s = s
            self.socket = _RawSock(s)

        def _mc_state(self):
            return ("faketrio", self._s)

        def setsockopt(self, *a):
            self.socket.setsockopt(*a)

        async def receive_some(self, max_bytes=None):
            if self._s._tr.closed:
                raise real.ClosedResourceError
            return await _deadline_aware(self._s.read(max_bytes or 65536, timeout=_cur_timeout()), (real.TooSlowError,))

        async def send_all(self, data):
            if self._s._tr.closed:
                raise real.ClosedResourceError
            if data:
                await _deadline_aware(self._s.write(bytes(data), timeout=_cur_timeout()), (real.TooSlowError,))

        async def aclose(self):
            await self._s.aclose()

    class SSLStream:
        def __init__(self, transport_stream, ssl_context=None, *, server_hostname=None, server_side=False, https_compatible=False, **kw):
            self.transport_stream = transport_stream
            self._ctx = ssl_context
            self._sni = server_hostname
            self._s = None

        def _mc_state(self):
            return ("faketriotls", self.transport_stream, self._s)

        @property
        def _ssl_object(self):
            return self._s.get_extra_info("ssl_object") if self._s is not None else None

        def _under(self):
            t = self.transport_stream
            return t._s if t._s is not None else t._under()

        async def do_handshake(self):
            base = self._under()
            if base._tr.closed:
                raise real.ClosedResourceError
            self._s = await _deadline_aware(base.start_tls(self._ctx, self._sni, timeout=_cur_timeout()), (real.TooSlowError,))

        async def receive_some(self, max_bytes=None):
            if self._s is None:
                await self.do_handshake()
            if self._s._tr.closed:
                raise real.ClosedResourceError
            return await _deadline_aware(self._s.read(max_bytes or 65536, timeout=_cur_timeout()), (real.TooSlowError,))

        async def send_all(self, data):
            if self._s is None:
                await self.do_handshake()
            if self._s._tr.closed:
                raise real.ClosedResourceError
            if data:
                await _deadline_aware(self._s.write(bytes(data), timeout=_cur_timeout()), (real.TooSlowError,))

        async def aclose(self):
            await (self._s if self._s is not None else self._under()).aclose()

    async def open_tcp_stream(host, port, *, local_address=None, **kw):
        s = await _deadline_aware(CURRENT[0].connect_tcp(host, port, timeout=_cur_timeout(), local_address=local_address), (real.TooSlowError,))
        return SocketStream(s)

    async def open_unix_socket(path):
        s = await _deadline_aware(CURRENT[0].connect_unix_socket(path, timeout=_cur_timeout()), (real.TooSlowError,))
        return SocketStream(s)

    async def sleep(seconds):
        await CURRENT[0].sleep(seconds)

    return types.SimpleNamespace(
        TooSlowError=real.TooSlowError, BrokenResourceError=real.BrokenResourceError, ClosedResourceError=real.ClosedResourceError,
        abc=real.abc, fail_after=_make_fail_after(real.TooSlowError), open_tcp_stream=open_tcp_stream, open_unix_socket=open_unix_socket, sleep=sleep,
        SSLStream=SSLStream, SocketStream=SocketStream)


# ------------------------------------------------------------------ installation (rebinding only, this process only)

_INSTALLED = [False]


def install():
    if _INSTALLED[0]:
        return
    from httpcore._backends import sync as b_sync, anyio as b_anyio, trio as b_trio
    from ..engine import MachineryError
    for mod, names in ((b_sync, ("socket", "ssl", "is_socket_readable")), (b_anyio, ("anyio", "is_socket_readable")), (b_trio, ("trio",))):
        for n in names:
            if not hasattr(mod, n):
                raise MachineryError(f"{mod.__name__} no longer has the name {n!r}: the OS-level seam of the backend checks does not apply")
    _register_faults()
    # NetworkBackend.sleep (used by the sync backend for the retry pauses) calls time.sleep
    from httpcore._backends import base as b_base
    if not hasattr(b_base, "time"):
        raise MachineryError("httpcore._backends.base no longer has the name 'time': the sleep seam does not apply")
    import time as real_time
    tns = types.SimpleNamespace(**{k: getattr(real_time, k) for k in dir(real_time) if not k.startswith("__")})
    tns.sleep = lambda seconds: CURRENT[0].sleep(seconds) if CURRENT[0] is not None else None
    b_base.time = tns
    b_sync.socket = _socket_namespace()
    b_sync.ssl = _ssl_namespace()
    b_sync.is_socket_readable = _is_readable
    b_anyio.anyio = _anyio_namespace()
    b_anyio.is_socket_readable = _is_readable
    b_trio.trio = _trio_namespace()
    # the duck-typed TLS context of the simulation learns the two entry points the sync backend calls
    sim.RecordingSSLContext.wrap_socket = _wrap_socket
    sim.RecordingSSLContext.wrap_bio = _wrap_bio
    _INSTALLED[0] = True
