"""Virtual asyncio event loop: no selector, virtual clock, iterations run by hand.

The FIFO order of the ready queue is never changed (asyncio guarantees it and
anyio relies on it); what the explorer decides is which external events arrive
between iterations.
"""
from __future__ import annotations

import asyncio
import heapq
import sys
from asyncio import events


class VLoop(asyncio.BaseEventLoop):
    def __init__(self):
        super().__init__()
        self._vtime = 0.0
        self._asyncgens_seen = []
        self.iterations = 0
        self.unhandled = []
        self.set_exception_handler(self._on_exception)

    # -- BaseEventLoop plumbing
    def time(self):
        return self._vtime

    def _process_events(self, event_list):
        pass

    def _write_to_self(self):
        pass

    def _on_exception(self, loop, context):
        self.unhandled.append({k: repr(v)[:300] for k, v in context.items()})

    # -- manual driving
    def install(self):
        if getattr(self, "_mc_installed", False):
            return
        self._mc_installed = True
        events._set_running_loop(self)
        self._old_hooks = sys.get_asyncgen_hooks()
        sys.set_asyncgen_hooks(firstiter=self._ag_first, finalizer=self._ag_final)

    def uninstall(self):
        # finish suspended async generators deterministically (never by the GC)
        for ag in self._asyncgens_seen:
            try:
                if ag.ag_frame is not None and not ag.ag_running:
                    ag.aclose().send(None)
            except BaseException:
                pass
        self._asyncgens_seen.clear()
        sys.set_asyncgen_hooks(*self._old_hooks)
        events._set_running_loop(None)
        # drop everything still scheduled
        for h in list(self._ready):
            h.cancel()
        self._ready.clear()
        self._scheduled.clear()
        if not self.is_closed():
            self.close()

    def _ag_first(self, ag):
        self._asyncgens_seen.append(ag)

    def _ag_final(self, ag):
        # reached only if a generator is collected while suspended: keep it alive instead
        self._asyncgens_seen.append(ag)

    def move_due_timers(self):
        sched = self._scheduled
        while sched and (sched[0]._cancelled or sched[0]._when <= self._vtime):
            h = heapq.heappop(sched)
            h._scheduled = False
            if not h._cancelled:
                self._ready.append(h)

    def run_iteration(self):
        """One event-loop iteration: timers that are due, then the handles ready *now*."""
        self.iterations += 1
        self.move_due_timers()
        n = len(self._ready)
        for _ in range(n):
            h = self._ready.popleft()
            if not h._cancelled:
                h._run()
        h = None

    def live_ready(self):
        return [h for h in self._ready if not h._cancelled]

    def live_timers(self):
        return sorted((h for h in self._scheduled if not h._cancelled), key=lambda h: h._when)

    def fire_next_timer(self):
        ts = self.live_timers()
        if not ts:
            return False
        self._vtime = max(self._vtime, ts[0]._when)
        self.move_due_timers()
        return True

    def advance(self, dt):
        self._vtime += dt
        self.move_due_timers()


def is_spinner(handle) -> bool:
    """anyio re-arms CancelScope._deliver_cancellation with call_soon on every
    iteration while a cancelled scope still has tasks that cannot be cancelled now."""
    cb = getattr(handle, "_callback", None)
    return getattr(cb, "__name__", "") == "_deliver_cancellation"


def run_single(coro_factory, max_iterations=100000):
    """Run one coroutine to completion on a fresh virtual loop (sequential async world).
    Simulated operations do not suspend there; the only loop activity is the task's own
    checkpoint yields.  Returns ("ok", value) or ("exc", exception)."""
    loop = VLoop()
    loop.install()
    try:
        task = loop.create_task(coro_factory(), name="caller")
        n = 0
        while not task.done():
            n += 1
            if n > max_iterations:
                task.cancel()
                return ("livelock", None, loop)
            if loop.live_ready():
                loop.run_iteration()
            elif not loop.fire_next_timer():
                return ("deadlock", None, loop)
        if task.cancelled():
            return ("exc", asyncio.CancelledError(), loop)
        e = task.exception()
        if e is not None:
            return ("exc", e, loop)
        return ("ok", task.result(), loop)
    finally:
        loop.uninstall()
