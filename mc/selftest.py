"""./check --selftest : the machinery checked on toy harnesses with seeded bugs (a harness
that has never failed has not been shown to work), determinism, merge on/off agreement,
fingerprint laws, and schema validation of the evidence files."""
from __future__ import annotations

import glob
import json
import os
import subprocess
import sys

from . import canon, engine
from .engine import Execution, Violation, make_spec

MOD = "mc.selftest"
ROOT = os.path.dirname(os.path.dirname(os.path.abspath(__file__)))


class ToyCounter:
    """Three binary choices; the bug manifests only for the sequence 1,0,1 (two deviations)."""

    def __init__(self, merge_state=True):
        self.merge_state = merge_state

    def run(self, ch):
        seq = []
        for i in range(3):
            state = (i, tuple(seq))
            fp = (lambda s=state: repr(s).encode()) if self.merge_state else None
            seq.append(ch.choose(2, f"step{i}", cost=1, fp=fp))
        ex = Execution(outcome=str(sum(seq)), nontrivial=any(seq))
        if seq == [1, 0, 1]:
            ex.violations.append(Violation("TOY.bug", "sequence 1,0,1", {"k": "toy"}))
        return ex


class ToyDiamond:
    """Two commuting events: merging must collapse the diamond without losing the bug behind it."""

    def run(self, ch):
        done = set()
        order = []
        while len(done) < 2:
            rest = [e for e in ("a", "b") if e not in done]
            k = ch.choose(len(rest), "ev", cost=0, fp=lambda d=frozenset(done): repr(sorted(d)).encode()) if len(rest) > 1 else 0
            done.add(rest[k])
            order.append(rest[k])
        last = ch.choose(2, "final", cost=0, fp=lambda: b"final")
        ex = Execution(outcome=f"last={last}", nontrivial=True)
        if last == 1:
            ex.violations.append(Violation("TOY.final", "final deviation", {"k": "diamond"}))
        return ex


class ToyDivergent:
    """Changes its label on replay: the engine must call this a machinery error, never a violation."""
    n = 0

    def run(self, ch):
        ToyDivergent.n += 1
        ch.choose(2, f"label{ToyDivergent.n}", cost=0)
        ch.choose(2, "second", cost=0)
        return Execution(outcome="x")


class ToyThreads:
    """Lost update: two threads do a check-then-act on two separate lines."""

    def __init__(self, locked=False):
        self.locked = locked

    def run(self, ch):
        from .tworld import TWorld
        from . import tshim
        w = TWorld(ch, lambda *a: None, granularity="sync")
        box = {"v": 0}
        lock = tshim.Lock()

        def worker():
            if self.locked:
                lock.acquire()
            v = box["v"]
            w.point("between-read-and-write")
            box["v"] = v + 1
            if self.locked:
                lock.release()
            return box["v"]
        w.add_thread("t0", worker)
        w.add_thread("t1", worker)
        w.run()
        ex = Execution(outcome=str(box["v"]), nontrivial=w.preemptions > 0)
        if box["v"] != 2:
            ex.violations.append(Violation("TOY.lost-update", f"counter is {box['v']}", {"k": "threads"}))
        if w.deadlock:
            ex.violations.append(Violation("TOY.deadlock", str(w.deadlock), {"k": "threads"}))
        return ex


class ToyLockOrder:
    def run(self, ch):
        from .tworld import TWorld
        from . import tshim
        w = TWorld(ch, lambda *a: None, granularity="sync")
        a, b = tshim.Lock(), tshim.Lock()

        def t0():
            a.acquire(); b.acquire(); b.release(); a.release()

        def t1():
            b.acquire(); a.acquire(); a.release(); b.release()
        w.add_thread("t0", t0)
        w.add_thread("t1", t1)
        w.run()
        ex = Execution(outcome="dead" if w.deadlock else "ok", nontrivial=True)
        if w.deadlock:
            ex.violations.append(Violation("TOY.deadlock", str(w.deadlock), {"k": "lockorder"}))
        return ex


def _expect(cond, what, fails):
    print(("  ok   " if cond else "  FAIL ") + what)
    if not cond:
        fails.append(what)


def main():
    fails = []
    print("engine:")
    s = make_spec(MOD, "ToyCounter")
    a = engine.explore(s, bound=1, recheck=0)
    b = engine.explore(s, bound=2, recheck=0)
    c = engine.explore(s, bound=None, recheck=0)
    _expect(not a.violations, "bug needing two deviations is not reported at deviation bound 1", fails)
    _expect(bool(b.violations) and bool(c.violations), "and is reported at bound 2 and unbounded", fails)
    _expect(c.evaluations <= 8, f"unbounded tree of 2^3 leaves explored with {c.evaluations} executions", fails)
    d1 = engine.explore(make_spec(MOD, "ToyDiamond"), bound=None, merge=True, recheck=0)
    d2 = engine.explore(make_spec(MOD, "ToyDiamond"), bound=None, merge=False, recheck=0)
    _expect(set(d1.outcomes) == set(d2.outcomes) and bool(d1.violations) == bool(d2.violations) and d1.evaluations < d2.evaluations,
            f"merging collapses a diamond ({d1.evaluations} vs {d2.evaluations} executions) with identical outcomes and violations", fails)
    try:
        engine.explore(make_spec(MOD, "ToyDivergent"), bound=None, recheck=0)
        _expect(False, "replay divergence detected", fails)
    except engine.MachineryError as e:
        _expect("divergence" in str(e), "a harness that changes its choice labels on replay is a machinery error (exit 2), not a violation", fails)
    r1 = engine.run_once(make_spec(MOD, "ToyCounter"), [1, 0, 1])
    r2 = engine.run_once(make_spec(MOD, "ToyCounter"), [1, 0, 1])
    _expect(r1["tdigest"] == r2["tdigest"] and r1["violations"], "replaying one recorded choice sequence twice gives identical observations and the violation", fails)

    print("thread world:")
    t = engine.explore(make_spec(MOD, "ToyThreads", locked=False), bound=1, merge=False, recheck=0)
    _expect(any(x["oracle"] == "TOY.lost-update" for v in t.violations for x in v["violations"]), "lost update found with one pre-emption", fails)
    t0 = engine.explore(make_spec(MOD, "ToyThreads", locked=False), bound=0, merge=False, recheck=0)
    _expect(not t0.violations, "and not with zero pre-emptions", fails)
    t2 = engine.explore(make_spec(MOD, "ToyThreads", locked=True), bound=2, merge=False, recheck=0)
    _expect(not t2.violations, "no alarm when the update is under a lock (bound 2)", fails)
    t3 = engine.explore(make_spec(MOD, "ToyLockOrder"), bound=1, merge=False, recheck=0)
    _expect(any(x["oracle"] == "TOY.deadlock" for v in t3.violations for x in v["violations"]), "lock-order inversion reported as deadlock", fails)

    print("real-backend layer:")
    from .simnet import fakeos
    fakeos.install()
    import httpcore._backends.sync as bs
    spec = make_spec("mc.props.backends", "BackendHarness", runtime="sync", ct="h11")
    clean = engine.explore(spec, bound=1, recheck=0)
    _expect(not clean.violations and clean.evaluations > 5, f"the real SyncBackend over the OS-level fakes: {clean.evaluations} executions, no violation", fails)
    orig = bs.ReadTimeout
    bs.ReadTimeout = bs.WriteTimeout          # planted bug: recv() timeouts mapped to the wrong class
    try:
        planted = engine.explore(spec, bound=1, recheck=0)
    finally:
        bs.ReadTimeout = orig
    _expect(any(x["oracle"] == "C15.wrong-class" for v in planted.violations for x in v["violations"]),
            "a planted wrong exception mapping in the sync backend is reported (C15.wrong-class)", fails)

    print("fingerprints:")

    class N:
        def __init__(self, v):
            self.v = v
            self.next = None
    x1, x2 = N(1), N(2); x1.next = x2; x2.next = x1
    y1, y2 = N(1), N(2); y1.next = y2; y2.next = y1
    _expect(canon.fingerprint([x1])[0] == canon.fingerprint([y1])[0], "isomorphic cyclic graphs at different addresses have equal fingerprints", fails)
    y2.v = 3
    _expect(canon.fingerprint([x1])[0] != canon.fingerprint([y1])[0], "a changed field changes the fingerprint", fails)
    _expect(canon.fingerprint([{3, 1, 2}])[0] == canon.fingerprint([{2, 3, 1}])[0], "set iteration order does not matter", fails)
    import select
    ep = select.epoll()
    f1, u1 = canon.fingerprint([ep])
    f2, u2 = canon.fingerprint([ep])
    ep.close()
    _expect(bool(u1) and f1 != f2, "an object of a type without a rule makes the state unmergeable (unique nonce) and is reported", fails)

    def gen():
        stale = "first"
        yield 1
        stale = "second"
        yield stale
    g1, g2 = gen(), gen()
    next(g1); next(g2)
    _expect(canon.fingerprint([g1])[0] == canon.fingerprint([g2])[0], "suspended generators at the same point have equal fingerprints", fails)
    live = canon.live_locals(g1.gi_frame.f_code, g1.gi_frame.f_lasti)
    _expect("stale" not in live, "a local that is overwritten before any read is not part of the state (liveness analysis)", fails)

    print("evidence files:")
    vt = "/opt/veriftools/pyvenv/bin/python"
    schema = "/root/.vp/EVIDENCE.schema.json"
    files = sorted(glob.glob(os.path.join(ROOT, "evidence", "C*.json")))
    if os.path.exists(vt) and os.path.exists(schema) and files:
        code = ("import json,sys,jsonschema\ns=json.load(open(sys.argv[1]))\n"
                "for f in sys.argv[2:]:\n    jsonschema.validate(json.load(open(f)),s)\nprint(len(sys.argv)-2)")
        r = subprocess.run([vt, "-c", code, schema] + files, capture_output=True, text=True)
        _expect(r.returncode == 0, f"{len(files)} evidence files validate against EVIDENCE.schema.json (jsonschema)", fails)
        if r.returncode:
            print(r.stderr[-600:])
    else:
        from . import evidence
        for f in files:
            evidence.builtin_validate(json.load(open(f)))
        _expect(True, f"{len(files)} evidence files pass the built-in validator (jsonschema not available here)", fails)
    kf = json.load(open(os.path.join(ROOT, "known_findings.json")))
    missing = [e.get("replay") for e in kf if e["status"] == "open" and not os.path.exists(os.path.join(ROOT, e.get("replay", "x")))]
    _expect(not missing, f"every open known finding has a committed replay example ({len([e for e in kf if e['status'] == 'open'])} open)", fails)
    print("SELFTEST", "FAILED: " + "; ".join(fails) if fails else "PASSED")
    return 1 if fails else 0
