"""Thread world (W-T): real OS threads, exactly one running at a time (baton =
per-thread semaphore), scheduling decided by the explorer's chooser.

Scheduling points:
  * every `line` event (sys.settrace) in the chosen httpcore source files (granularity "line"),
  * every operation of the shimmed threading.Lock / Event / Semaphore (mc.tshim),
  * every simulated network operation (env.sync_point) and get_extra_info probe.
A thread blocked on a lock / event / semaphore / empty read is *disabled* until its
condition holds.  No enabled thread while some are unfinished = deadlock.
Switching away from a thread that could continue costs one pre-emption (CHESS).
"""
from __future__ import annotations

import sys
import threading as real_threading

from . import tshim
from .engine import MachineryError
from .simnet import core as sim


class _Abort(BaseException):
    """Raised inside controlled threads to unwind them when an execution is torn down."""


class TThread:
    def __init__(self, tid, name, fn):
        self.tid = tid
        self.name = name
        self.fn = fn
        self.baton = real_threading.Semaphore(0)
        self.done = False
        self.result = None
        self.blocked_on = None      # None | ("lock", obj) | ("event", obj, timeout) | ("sem", obj) | ("read", transport)
        self.timed_out = False
        self.thread = None
        self.where = "-"


class TEnv:
    """Immediate answers (success, all available bytes); every operation is a scheduling point."""

    suspending = False

    def __init__(self, world):
        self.world = world
        self.faults = 0
        self.injected = []
        self.time = 0.0
        self.refuse = {}            # host -> k: the TCP connect to it is refused (ConnectError) - a slow failure: it is reported only
                                    # once k other threads are parked on an event (queued in the pool); failure paths under threads

    def _mc_state(self):
        return "tenv"

    def note_extra_info(self, tr, info):
        if info == "is_readable":
            self.world.point(f"net:is_readable")

    def sync_point(self, op):
        self.world.point(f"net:{op.kind}")
        if op.kind == "connect_tcp" and self.refuse.get(op.args.get("host")):
            k = self.refuse[op.args.get("host")]
            w = self.world
            me = w.current

            def gate():
                if isinstance(k, float):        # a connect that takes k seconds to fail: reported once the clock has reached k
                    ready = self.time >= k
                else:                           # ... once k other threads are parked on an event (queued in the pool)
                    ready = sum(1 for t in w.threads if t is not me and not t.done and t.blocked_on is not None and t.blocked_on[0] == "event") >= k
                return ready or all(t.done or t.blocked_on is not None for t in w.threads if t is not me)
            while not gate():
                w.block(("gate", gate))
        if op.kind == "read":
            tr = op.tr
            while not tr.closed and not tr.inbound and not tr.peer_eof:
                self.world.block(("read", tr))

    def on_sleep(self, s):
        self.time += s

    def immediate(self, op):
        if op.kind == "connect_tcp" and op.args.get("host") in self.refuse:
            from httpcore import ConnectError
            self.injected.append((op.i, "ConnectError"))
            return ("raise", ConnectError("simulated: connection refused"))
        return ("ok", None)


class TWorld:
    def __init__(self, chooser, router, *, granularity="line", trace_files=None, horizon=20000, trace_quals=None):
        self.trace_quals = tuple(trace_quals) if trace_quals else None
        tshim.install()
        self.chooser = chooser
        self.env = TEnv(self)
        self.net = sim.Net(self.env, router, clock=lambda: self.env.time)
        self.net.task_namer = self._tname
        self.backend = sim.SimBackend(self.net)
        from . import vclock
        vclock.install(lambda: self.env.time)
        self.granularity = granularity
        self.trace_files = tuple(trace_files or ())
        self.threads: list[TThread] = []
        self.current: TThread | None = None
        self.controller = real_threading.Semaphore(0)
        self.deadlock = None
        self.steps = 0
        self.horizon = horizon
        self.preemptions = 0
        self.monitors = []
        self.aborting = False
        self.switch_log = []
        self.preempted_in = []
        self.in_sched = False

    # ------------------------------------------------------------------ thread bookkeeping
    def _tname(self):
        return self.current.name if self.current is not None else None

    def add_thread(self, name, fn):
        t = TThread(len(self.threads), name, fn)
        self.threads.append(t)
        return t

    def _enabled(self, t: TThread) -> bool:
        if t.done:
            return False
        b = t.blocked_on
        if b is None:
            return True
        kind = b[0]
        if kind == "lock":
            return b[1].owner is None
        if kind == "event":
            return b[1].flag
        if kind == "sem":
            return b[1].value > 0
        if kind == "read":
            tr = b[1]
            return tr.closed or bool(tr.inbound) or tr.peer_eof
        if kind == "gate":
            return bool(b[1]())
        return True

    # ------------------------------------------------------------------ scheduling
    def point(self, label):
        """A scheduling point reached by the running thread."""
        cur = self.current
        if cur is None or self.aborting or self.in_sched:
            return
        if real_threading.current_thread() is not cur.thread:
            return
        if self.granularity != "line":
            f = sys._getframe(1)
            while f is not None and "/httpcore/" not in f.f_code.co_filename:
                f = f.f_back
            if f is not None:
                cur.where = f"{f.f_code.co_filename.rsplit('/', 1)[-1]}:{f.f_code.co_qualname}"
        self._schedule(label, cur_can_continue=True)

    def block(self, what):
        """The running thread cannot continue until `what` holds."""
        if self.aborting:
            raise _Abort()
        cur = self.current
        cur.blocked_on = what
        try:
            self._schedule("block:" + what[0], cur_can_continue=False)
        finally:
            cur.blocked_on = None

    def _schedule(self, label, cur_can_continue):
        cur = self.current
        self.in_sched = True
        try:
            self.steps += 1
            if self.steps > self.horizon:
                self.deadlock = ("livelock", f"horizon of {self.horizon} scheduling points exceeded")
                self._abort_all()
            for mon in self.monitors:
                mon(self, label)
            others = [t for t in self.threads if t is not cur and self._enabled(t)]
            if cur_can_continue:
                cands = [cur] + others
            else:
                cands = others
            if not cands:
                # nobody can run: a timed wait may time out (environment), else deadlock
                timed = [t for t in self.threads if not t.done and t.blocked_on is not None and t.blocked_on[0] == "event" and t.blocked_on[2] is not None]
                if timed:
                    nxt = timed[0]
                    nxt.timed_out = True
                else:
                    self.deadlock = ("deadlock", [(t.name, t.blocked_on[0] if t.blocked_on else "-", t.where) for t in self.threads if not t.done])
                    self._abort_all()
                    return
            elif len(cands) == 1:
                nxt = cands[0]
            else:
                k = self.chooser.choose(len(cands), f"{cur.name}@{label}|{len(cands)}", cost=1 if cur_can_continue else 0)
                nxt = cands[k]
                if cur_can_continue and k != 0:
                    self.preemptions += 1
                    self.preempted_in.append(cur.where)
        finally:
            self.in_sched = False
        if nxt is cur:
            return
        self.switch_log.append((cur.name, label, nxt.name))
        self.current = nxt
        nxt.baton.release()
        cur.baton.acquire()
        if self.aborting:
            raise _Abort()

    def _abort_all(self):
        self.aborting = True
        self.in_sched = False
        cur = self.current
        for t in self.threads:
            if t is not cur and not t.done and t.thread is not None:
                t.baton.release()
        raise _Abort()

    # ------------------------------------------------------------------ primitives (called by mc.tshim)
    def lock_acquire(self, lock):
        self.point("lock.acquire")
        while lock.owner is not None:
            self.block(("lock", lock))
        lock.owner = self.current.name
        return True

    def lock_release(self, lock):
        lock.owner = None
        self.point("lock.release")

    def event_set(self, ev):
        self.point("event.set")

    def event_wait(self, ev, timeout):
        self.point("event.wait")
        cur = self.current
        while not ev.flag:
            cur.timed_out = False
            self.block(("event", ev, timeout))
            if cur.timed_out and not ev.flag:
                cur.timed_out = False
                return False
        return True

    def sem_acquire(self, sem):
        self.point("sem.acquire")
        while sem.value <= 0:
            self.block(("sem", sem))
        sem.value -= 1
        return True

    def sem_release(self, sem):
        self.point("sem.release")

    # ------------------------------------------------------------------ tracing
    def _tracer(self, frame, event, arg):
        if event != "call":
            return None
        fn = frame.f_code.co_filename
        if not fn.endswith(self.trace_files):
            return None
        if self.trace_quals is not None and not frame.f_code.co_qualname.startswith(self.trace_quals):
            return None
        return self._local

    def _local(self, frame, event, arg):
        if event == "line":
            cur = self.current
            if cur is not None and not self.in_sched and not self.aborting:
                cur.where = f"{frame.f_code.co_filename.rsplit('/', 1)[-1]}:{frame.f_code.co_qualname}"
                self.point(f"{frame.f_code.co_filename.rsplit('/', 1)[-1]}:{frame.f_lineno}")
        return self._local

    # ------------------------------------------------------------------ running
    def _body(self, t: TThread):
        t.baton.acquire()
        if self.aborting:
            t.done = True
            self._thread_finished(t)
            return
        if self.granularity == "line" and self.trace_files:
            sys.settrace(self._tracer)
        try:
            t.result = ("ok", t.fn())
        except _Abort:
            t.result = ("aborted", None)
        except BaseException as e:  # noqa
            t.result = ("exc", e)
        finally:
            sys.settrace(None)
            t.done = True
            self._thread_finished(t)

    def _thread_finished(self, t):
        """Hand the baton on (or back to the controller when nobody is left / everything is blocked)."""
        if self.aborting:
            left = [x for x in self.threads if not x.done and x.thread is not None]
            if not left:
                self.controller.release()
            return
        others = [x for x in self.threads if not x.done and self._enabled(x)]
        if others:
            if len(others) == 1:
                nxt = others[0]
            else:
                self.in_sched = True
                try:
                    k = self.chooser.choose(len(others), f"{t.name}@exit|{len(others)}", cost=0)
                finally:
                    self.in_sched = False
                nxt = others[k]
            self.current = nxt
            nxt.baton.release()
            return
        unfinished = [x for x in self.threads if not x.done]
        if unfinished:
            timed = [x for x in unfinished if x.blocked_on is not None and x.blocked_on[0] == "event" and x.blocked_on[2] is not None]
            if timed:
                timed[0].timed_out = True
                self.current = timed[0]
                timed[0].baton.release()
                return
            self.deadlock = ("deadlock", [(x.name, x.blocked_on[0] if x.blocked_on else "-", x.where) for x in unfinished])
            self.aborting = True
            for x in unfinished:
                x.baton.release()
            return
        self.controller.release()

    def run(self):
        tshim.SCHED[0] = self
        try:
            for t in self.threads:
                t.thread = real_threading.Thread(target=self._body, args=(t,), name=t.name, daemon=True)
                t.thread.start()
            first = self.threads[0]
            if len(self.threads) > 1:
                k = self.chooser.choose(len(self.threads), f"start|{len(self.threads)}", cost=0)
                first = self.threads[k]
            self.current = first
            first.baton.release()
            if not self.controller.acquire(timeout=60):
                self.aborting = True
                for t in self.threads:
                    t.baton.release()
                raise MachineryError(f"thread world wedged (controller timeout); threads: {[(t.name, t.done, t.blocked_on and t.blocked_on[0], t.where) for t in self.threads]}")
            for t in self.threads:
                t.thread.join(timeout=10)
        finally:
            tshim.SCHED[0] = None
            self.current = None
        return self
