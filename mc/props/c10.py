"""C10 — requests travel only on connections made for their origin, TLS per scheme.

Exhaustive enumeration of the configuration product (scheme x host x port form x
proxy mode x http1/http2 switches x ALPN outcome x sni_hostname), sync and async,
and of every request sequence of length <= 3 over pairs of origins that differ in
exactly one component (near-miss sharing).  Oracle: the simulated backend's ledger
and the peer that actually received each request's bytes."""
from __future__ import annotations

import itertools
import multiprocessing as mp
import os

import httpcore

from .. import evidence, scen
from ..engine import Chooser
from ..seqworld import SeqWorld, exc_class
from ..simnet import core as sim
from ..simnet.http1 import H1Server, HTTPProxy, Socks5Proxy, make_echo_responder, token_of
from ..simnet.h2peer import AutoServer, H2Server

DEFAULT = {"http": 80, "https": 443, "ws": 80, "wss": 443}
SCHEMES = ["http", "https", "ws", "wss"]
PORT_FORMS = ["implicit", "explicit-default", "8080", "other-default"]
PROXIES = ["none", "http", "https", "socks5", "socks5h"]
SWITCHES = [(True, False), (True, True), (False, True)]
ALPN = ["h2", "http/1.1", None]


class Topo:
    def __init__(self, proxy, alpn_policy):
        self.alpn_policy = alpn_policy
        self.origins = {}
        self.proxy = None
        self.socks = None
        if proxy in ("http", "https"):
            self.proxy = HTTPProxy(self._inner, forward_server=H1Server(make_echo_responder("cl"), name="fwd"))
        elif proxy in ("socks5", "socks5h"):
            self.socks = Socks5Proxy(self._inner)

    def origin(self, host, port):
        o = self.origins.get((host, port))
        if o is None:
            o = AutoServer(H1Server(make_echo_responder("cl")), H2Server(), self.alpn_policy)
            self.origins[(host, port)] = o
        return o

    def _inner(self, kind, host, port):
        return self.origin(host, port).new_conn()

    def router(self, kind, host, port):
        if self.proxy is not None and (host, port) == (scen.PROXY_HOST, scen.PROXY_PORT):
            return self.proxy.new_conn()
        if self.socks is not None and (host, port) == (scen.SOCKS_HOST, scen.SOCKS_PORT):
            return self.socks.new_conn()
        return self.origin(host, port).new_conn()

    def sightings(self):
        """token -> list of dict(where=(host,port)|'forward-proxy', conn=AutoConn|H1Conn, proto)"""
        out = {}
        for key, o in self.origins.items():
            for c in o.conns:
                if c.proto == "h1":
                    for r in c.inner.parser.requests:
                        if r.head_complete:
                            out.setdefault(token_of(r), []).append({"where": key, "conn": c, "proto": "h1", "tr": c.tr, "req": r})
                elif c.proto == "h2":
                    for sid in c.inner.order:
                        out.setdefault(c.inner.streams[sid].token, []).append({"where": key, "conn": c, "proto": "h2", "tr": c.tr, "req": c.inner.streams[sid]})
        if self.proxy is not None:
            for c in self.proxy.forward_server.conns:
                for r in c.parser.requests:
                    if r.head_complete:
                        out.setdefault(token_of(r), []).append({"where": "forward-proxy", "conn": c, "proto": "h1", "tr": c.tr, "req": r})
        return out


def make_pool(variant, backend, proxy, http1, http2):
    if variant.endswith("-legacy"):
        # the HTTPProxy / SOCKSProxy pool classes (their own __init__ and create_connection) instead of ConnectionPool(proxy=...)
        sync = variant.startswith("sync")
        kw = dict(ssl_context=sim.RecordingSSLContext("origin"), http1=http1, http2=http2, network_backend=backend, max_connections=10)
        if proxy in ("http", "https"):
            cls = httpcore.HTTPProxy if sync else httpcore.AsyncHTTPProxy
            return cls(proxy_url=f"{proxy}://{scen.PROXY_HOST}:{scen.PROXY_PORT}",
                       proxy_ssl_context=sim.RecordingSSLContext("proxy") if proxy == "https" else None, **kw)
        cls = httpcore.SOCKSProxy if sync else httpcore.AsyncSOCKSProxy
        return cls(proxy_url=f"{proxy}://{scen.SOCKS_HOST}:{scen.SOCKS_PORT}", **kw)
    cls = httpcore.ConnectionPool if variant == "sync" else httpcore.AsyncConnectionPool
    p = None
    if proxy == "http":
        p = httpcore.Proxy(f"http://{scen.PROXY_HOST}:{scen.PROXY_PORT}")
    elif proxy == "https":
        p = httpcore.Proxy(f"https://{scen.PROXY_HOST}:{scen.PROXY_PORT}", ssl_context=sim.RecordingSSLContext("proxy"))
    elif proxy in ("socks5", "socks5h"):
        p = httpcore.Proxy(f"{proxy}://{scen.SOCKS_HOST}:{scen.SOCKS_PORT}")
    return cls(ssl_context=sim.RecordingSSLContext("origin"), proxy=p, http1=http1, http2=http2, network_backend=backend, max_connections=10)


def url_of(scheme, host, port_form):
    other = {"http": 443, "https": 80, "ws": 443, "wss": 80}[scheme]
    if port_form == "implicit":
        return f"{scheme}://{host}", DEFAULT[scheme]
    p = {"explicit-default": DEFAULT[scheme], "8080": 8080, "other-default": other}[port_form]
    return f"{scheme}://{host}:{p}", p


def run_requests(variant, proxy, http1, http2, alpn, reqs):
    """reqs: list of (scheme, host, port_form, sni or None).  Returns (world, topo, results)."""
    topo = Topo(proxy, alpn)
    full_variant = variant
    variant = variant.split("-")[0]
    w = SeqWorld(Chooser([]), topo.router, variant=variant)
    w.env.fp = None
    pool = make_pool(full_variant, w.backend, proxy, http1, http2)
    results = []
    plan = []
    for i, (scheme, host, pf, sni) in enumerate(reqs):
        base, port = url_of(scheme, host, pf)
        if sni == "@mutate":
            # ONE URL object for the whole sequence, its scheme / host / port / target re-assigned in place before each request
            plan.append((f"{base}/t/q{i}", {"@mutate": True}, scheme, host, port, None))
        elif sni == "@target":
            # the "target" request extension (here: naming the URL's own path) must leave the destination alone
            plan.append((f"{base}/t/q{i}", {"target": f"/t/q{i}".encode()}, scheme, host, port, None))
        else:
            plan.append((f"{base}/t/q{i}", {"sni_hostname": sni} if sni else {}, scheme, host, port, sni))
    shared = [None]

    def the_url(url, ext):
        if not ext.get("@mutate"):
            return url, ext
        fresh = httpcore.URL(url)
        if shared[0] is None:
            shared[0] = fresh
        else:
            u = shared[0]
            u.scheme, u.host, u.port, u.target = fresh.scheme, fresh.host, fresh.port, fresh.target
        return shared[0], {}
    if variant == "sync":
        def prog():
            for url, ext, *_ in plan:
                url, ext = the_url(url, ext)
                try:
                    r = pool.request("GET", url, extensions=dict(ext))
                    results.append(("ok", r.status, r.content))
                except Exception as e:
                    results.append(("exc", e))
            pool.close()
        res = w.run(sync_fn=prog)
    else:
        async def aprog():
            for url, ext, *_ in plan:
                url, ext = the_url(url, ext)
                try:
                    r = await pool.request("GET", url, extensions=dict(ext))
                    results.append(("ok", r.status, r.content))
                except Exception as e:
                    results.append(("exc", e))
            await pool.aclose()
        res = w.run(async_fn=aprog)
    return w, topo, plan, results, res


def judge(variant, proxy, http1, http2, alpn, reqs, w, topo, plan, results, res, case):
    out = []

    def bad(kind, msg, **sigx):
        out.append({"oracle": "C10." + kind, "message": f"{msg} | variant={variant} proxy={proxy} http1={http1} http2={http2} alpn={alpn} requests={reqs}",
                    "signature": dict({"harness": "origin", "kind": kind, "proxy": proxy}, **sigx), "case": case})

    if res[0] != "ok":
        bad("harness-" + res[0], f"program did not finish: {res}")
        return out
    sight = topo.sightings()
    used_conns = {}
    if w.net.stale_layer_ops:
        bad("tls-bypassed", f"I/O through the pre-TLS stream object after the upgrade (bytes written underneath the TLS session): {w.net.stale_layer_ops[:3]}")
    for i, (url, ext, scheme, host, port, sni) in enumerate(plan):
        r = results[i]
        tok = f"q{i}".encode()
        s = sight.get(tok, [])
        if r[0] == "exc":
            # a configuration may legitimately be unsupported only if nothing was sent anywhere
            if s:
                bad("failed-after-send", f"request {i} failed with {exc_class(r[1])} after being written", scheme=scheme)
            else:
                bad("request-failed", f"request {i} ({url}) failed: {exc_class(r[1])}: {r[1]}", scheme=scheme, exc=exc_class(r[1]))
            continue
        if r[2] != b"<" + tok + b">":
            bad("wrong-response", f"request {i} got {r[2]!r}", scheme=scheme)
        if len(s) != 1:
            bad("sightings", f"request {i} seen {len(s)} times", scheme=scheme)
            continue
        s = s[0]
        tls_wanted = scheme in ("https", "wss")
        tr = s["tr"]
        via_forward = s["where"] == "forward-proxy"
        if via_forward:
            if not (proxy in ("http", "https") and scheme == "http"):
                bad("forwarded", f"request {i} for scheme {scheme} was sent in forwarding mode", scheme=scheme)
            # absolute-form target must name exactly this origin
            tgt = s["req"].target.decode("latin1")
            base = url.split("/t/")[0]
            if not tgt.startswith(base + "/t/"):
                bad("forward-target", f"request {i}: forwarded target {tgt!r} does not name {base}", scheme=scheme)
            origin_layers = []
        else:
            if s["where"] != (host, port):
                bad("wrong-destination", f"request {i} for {host}:{port} was carried by a stream established to {s['where']}", scheme=scheme)
            origin_layers = s["conn"].tls
        # TLS iff https/wss (the origin peer's own record of handshakes on that stream)
        if not via_forward:
            if tls_wanted and not origin_layers:
                bad("tls-missing", f"request {i} ({scheme}) travelled without TLS to the origin", scheme=scheme)
            if not tls_wanted and origin_layers:
                bad("tls-unwanted", f"request {i} ({scheme}) was TLS-wrapped towards the origin", scheme=scheme)
            for L in origin_layers[:1]:
                want_sni = sni or host
                if L["sni"] != want_sni:
                    bad("sni", f"request {i}: server_hostname {L['sni']!r} expected {want_sni!r}", scheme=scheme, sni_ext=bool(sni))
                if ("h2" in L["offered"]) != bool(http2):
                    bad("alpn-offer", f"request {i}: ALPN offered {L['offered']} with http2={http2}", scheme=scheme)
                if "http/1.1" not in L["offered"]:
                    bad("alpn-offer", f"request {i}: ALPN list {L['offered']} lacks http/1.1", scheme=scheme)
            negotiated_h2 = bool(origin_layers) and origin_layers[0]["selected"] == "h2"
            want_h2 = negotiated_h2 or (http2 and not http1)
            if (s["proto"] == "h2") != want_h2:
                bad("protocol", f"request {i}: spoke {s['proto']} but ALPN selected {origin_layers[0]['selected'] if origin_layers else None}, http1={http1}, http2={http2}", scheme=scheme)
        used_conns.setdefault(id(tr), set()).add((scheme, host, port))
    for k, origins in used_conns.items():
        if len(origins) > 1:
            fwd = proxy in ("http", "https") and all(o[0] == "http" for o in origins)
            # one proxy connection per *origin* is what the pool builds; sharing a stream across origins is a violation either way
            bad("shared-across-origins", f"one stream carried requests of different origins: {sorted(origins)}")
    return out


def config_cases(tier):
    for scheme, pf, proxy, (h1, h2), alpn, sni in itertools.product(SCHEMES, PORT_FORMS, PROXIES, SWITCHES, ALPN, [None, "sni.example"]):
        yield ("config", proxy, h1, h2, alpn, [(scheme, "a.example", pf, sni)])
    # request extensions that must not move the request: "target" alone, and followed by a plain request to the same origin (reuse)
    for scheme, pf, proxy, (h1, h2, alpn) in itertools.product(SCHEMES, PORT_FORMS, PROXIES, [(True, False, "http/1.1"), (True, True, "h2")]):
        yield ("config", proxy, h1, h2, alpn, [(scheme, "a.example", pf, "@target")])
        yield ("config", proxy, h1, h2, alpn, [(scheme, "a.example", pf, "@target"), (scheme, "a.example", pf, None)])


def pair_cases(tier):
    comps = []
    for scheme in SCHEMES:
        for host in ("a.example", "b.example"):
            for pf in PORT_FORMS:
                comps.append((scheme, host, pf))

    def eff(c):
        return (c[0], c[1], url_of(*c)[1])
    pairs = []
    for x, y in itertools.combinations(comps, 2):
        ex, ey = eff(x), eff(y)
        diff = sum(1 for a, b in zip(ex, ey) if a != b)
        if diff == 1:
            pairs.append((x, y))
    seqs = [s for n in (2, 3) for s in itertools.product((0, 1), repeat=n) if len(set(s)) == 2]
    proxies = PROXIES if tier == "thorough" else ["none", "http", "socks5"]
    for proxy in proxies:
        for (h1, h2, alpn) in ([(True, False, "http/1.1"), (True, True, "h2")] if tier == "quick" else [(True, False, "http/1.1"), (True, True, "h2"), (True, True, "http/1.1"), (False, True, None)]):
            for x, y in pairs:
                for s in (seqs if tier == "thorough" else seqs[:3]):
                    yield ("pair", proxy, h1, h2, alpn, [(*(x if k == 0 else y), None) for k in s])


def mutated_url_cases(tier):
    """Near-miss sequences again, all requests of a sequence made from one URL object that is changed in place."""
    n = 0
    for c in pair_cases("quick"):
        kind, proxy, h1, h2, alpn, reqs = c
        n += 1
        if tier == "quick" and n % 6:
            continue
        yield ("mutated", proxy, h1, h2, alpn, [(r[0], r[1], r[2], "@mutate") for r in reqs])



# ---------------------------------------------------------------------------------------------------------------------
# Pools that are given no ssl_context: httpcore.default_ssl_context() is on the path.  The name `ssl` inside httpcore._ssl is
# re-bound to a namespace whose create_default_context() hands out recording contexts, so what each handshake offers is what
# the context it was given holds *at handshake time*.  Two pools with different http2 switches work at once: request B (pool B)
# runs, start to finish, inside the k-th trace callback of request A (pool A) - for every k - which puts B's whole connection
# establishment at every point of A's, in particular between A's set_alpn_protocols() and A's handshake.

class _FakeSSLNamespace:
    def __init__(self, real):
        self._real = real
        self.made = []

    def create_default_context(self, *a, **k):
        c = _DefaultCtx(f"default{len(self.made)}")
        self.made.append(c)
        return c

    def __getattr__(self, name):
        return getattr(self._real, name)


class _DefaultCtx(sim.RecordingSSLContext):
    def load_verify_locations(self, *a, **k):
        self.verify_loaded = True


def _install_default_ctx_seam():
    import ssl as real_ssl
    import httpcore._ssl as m
    assert hasattr(m, "ssl") and hasattr(m, "default_ssl_context"), "seam gone: httpcore._ssl.ssl / default_ssl_context"
    ns = _FakeSSLNamespace(real_ssl)
    m.ssl = ns
    # a memoising wrapper around default_ssl_context (functools cache) must not carry contexts from one execution into the next
    for holder in (m, httpcore):
        fn = getattr(holder, "default_ssl_context", None)
        if hasattr(fn, "cache_clear"):
            fn.cache_clear()
    return ns, (m, real_ssl)


def _remove_default_ctx_seam(tok):
    m, real_ssl = tok
    m.ssl = real_ssl


def make_default_pool(variant, backend, proxy, http1, http2, ssl_context=None):
    cls = httpcore.ConnectionPool if variant == "sync" else httpcore.AsyncConnectionPool
    p = None
    if proxy == "http":
        p = httpcore.Proxy(f"http://{scen.PROXY_HOST}:{scen.PROXY_PORT}")
    elif proxy == "https":
        p = httpcore.Proxy(f"https://{scen.PROXY_HOST}:{scen.PROXY_PORT}")
    elif proxy in ("socks5", "socks5h"):
        p = httpcore.Proxy(f"{proxy}://{scen.SOCKS_HOST}:{scen.SOCKS_PORT}")
    return cls(ssl_context=ssl_context, proxy=p, http1=http1, http2=http2, network_backend=backend, max_connections=10)


def run_defctx(case, variant, k):
    """k = None: request A alone (returns the number of trace events); else request B inside A's k-th trace event."""
    _, proxyA, proxyB, swA, swB, alpn, schemeA, schemeB = case[:8]
    shared = sim.RecordingSSLContext("shared") if case[0] == "sharedctx" else None      # one caller-supplied context given to both pools
    topo = Topo(proxyA if proxyA != "none" else proxyB, alpn)
    w = SeqWorld(Chooser([]), topo.router, variant=variant)
    w.env.fp = None
    ns, tok = _install_default_ctx_seam()
    try:
        poolA = make_default_pool(variant, w.backend, proxyA, *swA, ssl_context=shared)
        poolB = make_default_pool(variant, w.backend, proxyB, *swB, ssl_context=shared)
        urlA, urlB = f"{schemeA}://a.example/t/q0", f"{schemeB}://b.example/t/q1"
        results = {}
        events = []
        if variant == "sync":
            def tr(name, info):
                events.append(name)
                if k is not None and len(events) - 1 == k:
                    try:
                        r = poolB.request("GET", urlB)
                        results[1] = ("ok", r.status, r.content)
                    except Exception as e:
                        results[1] = ("exc", e)

            def prog():
                try:
                    r = poolA.request("GET", urlA, extensions={"trace": tr})
                    results[0] = ("ok", r.status, r.content)
                except Exception as e:
                    results[0] = ("exc", e)
                poolA.close()
                poolB.close()
            res = w.run(sync_fn=prog)
        else:
            async def atr(name, info):
                events.append(name)
                if k is not None and len(events) - 1 == k:
                    try:
                        r = await poolB.request("GET", urlB)
                        results[1] = ("ok", r.status, r.content)
                    except Exception as e:
                        results[1] = ("exc", e)

            async def aprog():
                try:
                    r = await poolA.request("GET", urlA, extensions={"trace": atr})
                    results[0] = ("ok", r.status, r.content)
                except Exception as e:
                    results[0] = ("exc", e)
                await poolA.aclose()
                await poolB.aclose()
            res = w.run(async_fn=aprog)
    finally:
        _remove_default_ctx_seam(tok)
    return topo, results, res, events, ns


def judge_defctx(case, variant, k, topo, results, res, events, ns):
    out = []
    _, proxyA, proxyB, swA, swB, alpn, schemeA, schemeB = case[:8]
    where = events[k] if (k is not None and k < len(events)) else None

    def bad(kind, msg, **sigx):
        out.append({"oracle": "C10." + kind, "message": f"{msg} | {'default ssl contexts' if case[0] == 'defctx' else 'one ssl context shared by both pools'}, variant={variant} A=(proxy {proxyA}, http1/http2 {swA}, {schemeA}) B=(proxy {proxyB}, http1/http2 {swB}, {schemeB}) alpn={alpn}; B ran inside A's trace event #{k} ({where})",
                    "signature": dict({"harness": "default-context", "kind": kind, "proxy": proxyA}, **sigx),
                    "case": {"defctx": [list(x) if isinstance(x, tuple) else x for x in case], "variant": variant, "k": k}})

    if res[0] != "ok":
        bad("harness-" + res[0], f"program did not finish: {res}")
        return out
    sight = topo.sightings()
    want = [(0, schemeA, "a.example", swA)] + ([(1, schemeB, "b.example", swB)] if k is not None else [])
    for i, scheme, host, (h1, h2) in want:
        r = results.get(i)
        tokb = f"q{i}".encode()
        if r is None:
            bad("request-missing", f"request {i} never ran")
            continue
        if r[0] == "exc":
            bad("request-failed", f"request {i} failed: {exc_class(r[1])}: {r[1]}", exc=exc_class(r[1]))
            continue
        if r[2] != b"<" + tokb + b">":
            bad("wrong-response", f"request {i} got {r[2]!r}")
        s = sight.get(tokb, [])
        if len(s) != 1:
            bad("sightings", f"request {i} seen {len(s)} times")
            continue
        s = s[0]
        if s["where"] == "forward-proxy":
            continue
        if s["where"] != (host, DEFAULT[scheme]):
            bad("wrong-destination", f"request {i} for {host} was carried by a stream established to {s['where']}")
        layers = s["conn"].tls
        tls_wanted = scheme in ("https", "wss")
        if tls_wanted and not layers:
            bad("tls-missing", f"request {i} ({scheme}) travelled without TLS to the origin")
        if not tls_wanted and layers:
            bad("tls-unwanted", f"request {i} ({scheme}) was TLS-wrapped towards the origin")
        for L in layers[:1]:
            if ("h2" in L["offered"]) != bool(h2):
                bad("alpn-offer", f"request {i}: the handshake offered ALPN {L['offered']} although its pool has http2={h2}")
            if "http/1.1" not in L["offered"]:
                bad("alpn-offer", f"request {i}: ALPN list {L['offered']} lacks http/1.1")
        negotiated_h2 = bool(layers) and layers[0]["selected"] == "h2"
        want_h2 = negotiated_h2 or (h2 and not h1)
        if (s["proto"] == "h2") != want_h2:
            bad("protocol", f"request {i}: spoke {s['proto']}; ALPN selected {layers[0]['selected'] if layers else None}, http1={h1}, http2={h2}")
        if (s["proto"] == "h2") and not h2:
            bad("h2-on-http1-pool", f"request {i}: HTTP/2 spoken on a pool with http2=False")
    for c in (ns.made if case[0] == "defctx" else []):
        if not getattr(c, "verify_loaded", False):
            bad("trust-store", "a default context was used without the certificate bundle being loaded into it")
    return out


def defctx_cases(tier):
    sw = [(True, False), (True, True)]
    for proxyA in (["none", "http", "https", "socks5"] if tier == "thorough" else ["none", "http", "socks5"]):
        for proxyB in sorted({"none", proxyA}):
            if proxyA != "none" and proxyB != "none" and proxyA != proxyB:
                continue
            for swA, swB in itertools.product(sw, sw):
                for alpn in (["h2", "http/1.1", None] if tier == "thorough" else ["h2"]):
                    for schemeA, schemeB in ([("https", "https"), ("wss", "https"), ("https", "http"), ("http", "https")] if tier == "thorough" else [("https", "https"), ("http", "https")]):
                        yield ("defctx", proxyA, proxyB, swA, swB, alpn, schemeA, schemeB)


def run_defctx_case(case, variant):
    """All nesting points of one configuration.  Returns (#runs, violations)."""
    topo, results, res, events, ns = run_defctx(case, variant, None)
    out = judge_defctx(case, variant, None, topo, results, res, events, ns)
    n = 1
    for k in range(len(events)):
        if case[0] == "sharedctx" and not events[k].startswith(("connection.connect_tcp.", "connection.connect_unix_socket.")):
            # a context the caller shares between pools is configured right before each handshake; only the part of the establishment
            # that lies BEFORE that (the TCP connect) may overlap another pool's work without the two interfering
            continue
        t = run_defctx(case, variant, k)
        out += judge_defctx(case, variant, k, *t)
        n += 1
    return n, out

def run_case(case, variant):
    kind, proxy, h1, h2, alpn, reqs = case
    reqs = [tuple(r) for r in reqs]
    w, topo, plan, results, res = run_requests(variant, proxy, h1, h2, alpn, reqs)
    return judge(variant, proxy, h1, h2, alpn, reqs, w, topo, plan, results, res, {"case": [kind, proxy, h1, h2, alpn, [list(r) for r in reqs]], "variant": variant})


def replay_case(case):
    if "api" in case:
        from . import apiuse
        return apiuse.replay_case(case, ("C10",))
    if "defctx" in case:
        c = tuple(tuple(x) if isinstance(x, list) else x for x in case["defctx"])
        if c[0] not in ("defctx", "sharedctx"):
            c = ("defctx",) + c[1:]
        t = run_defctx(c, case["variant"], case["k"])
        return judge_defctx(c, case["variant"], case["k"], *t)
    return run_case(tuple(case["case"]), case["variant"])


def _job(chunk):
    out, n, classes = [], 0, set()
    for case in chunk:
        for variant in (("sync", "async") if case[0] in ("defctx", "sharedctx") or case[1] == "none" else ("sync", "async", "sync-legacy", "async-legacy")):
            if case[0] in ("defctx", "sharedctx"):
                m, v = run_defctx_case(case, variant)
                n += m
                out += v[:3]
                classes.add((case[0], case[1], case[2], case[3], case[4], case[5], bool(v)))
                continue
            n += 1
            v = run_case(case, variant)
            out += v[:3]
            classes.add((case[0], case[1], case[2], case[3], case[4], tuple(r[0] for r in case[5]), bool(v)))
    return n, out, classes


def check(tier="quick", seed=0, workers=None, only=None):
    import httpcore._ssl as _sslmod
    # the default-context cases need the name `ssl` inside httpcore._ssl; a tree that obtains its default context differently is not
    # wrong for that, the cases are then left out (and the evidence says so) instead of failing the check
    seam_ok = hasattr(_sslmod, "ssl") and hasattr(_sslmod, "default_ssl_context")
    allc = list(config_cases(tier)) + list(pair_cases(tier)) + list(mutated_url_cases(tier)) + (list(defctx_cases(tier)) if seam_ok else []) + [("sharedctx",) + c[1:] for c in defctx_cases(tier) if c[1] == "none" and c[2] == "none" and c[6] != "http"]
    nw = workers or min(16, os.cpu_count() or 1)
    size = max(1, len(allc) // (nw * 8))
    chunks = [allc[i:i + size] for i in range(0, len(allc), size)]
    total, viols, classes = 0, [], set()
    with mp.get_context("fork").Pool(nw) as pool:
        for n, v, cl in pool.imap(_job, chunks):
            total += n
            viols += v
            classes |= cl
    from . import apiuse
    n_api, av = apiuse.run_all(("C10",)) if not only else (0, [])
    viols += av
    total += n_api
    ncfg = sum(1 for c in allc if c[0] == "config")
    ndef = sum(1 for c in allc if c[0] in ("defctx", "sharedctx"))
    cov = {"evaluations": total, "distinct_nontrivial": len(classes), "exhaustive": True,
           "rule": ("full configuration product scheme(4) x port form(4) x proxy mode(5) x http1/http2 switches(3) x ALPN outcome(3) x sni_hostname(2), the same with the target request extension, and every request "
                    "sequence of length 2-3 over every pair of origins (4 schemes x 2 hosts x 4 port forms) differing in exactly one effective component (also with all requests of a sequence made from one URL object changed in place), sync and async, proxied pools built both as ConnectionPool(proxy=Proxy(...)) and as HTTPProxy / SOCKSProxy objects; "
                    "distinct class = (kind, proxy, switches, ALPN, schemes of the sequence, violated?); default-context cases: two pools built with ssl_context=None (httpcore.default_ssl_context() on the path, "
                    "the name ssl inside httpcore._ssl re-bound to hand out recording contexts), a request of pool B running start to finish inside every single trace event of a request of pool A, x http2 switches of A and B x proxy kind"),
           "samples": [{"case": repr(c)[:300]} for c in allc[:: max(1, len(allc) // 5)][:5]], "configurations": ncfg, "pair_sequences": len(allc) - ncfg - ndef, "default_context_configurations": ndef if seam_ok else "skipped: httpcore._ssl has no module-level name 'ssl' to re-bind"}
    return {"level": "exploration", "coverage": cov, "violations": viols,
            "assumptions": ["the origin peer records the TLS handshakes it saw itself (SNI, offered ALPN) and detects HTTP/2 by the client preface; it selects an ALPN protocol only among those offered"]}
