"""C19 — URL, origin and default-header semantics.

Exhaustive enumeration of a URL grammar product (pure functions) against the
RFC 3986 appendix-B reference splitter and the laws stated in the property.
"""
from __future__ import annotations

import collections
import collections.abc
import itertools
import types
import re

import httpcore
from httpcore._models import include_request_headers, enforce_headers

from .. import evidence

RFC3986 = re.compile(rb"^(([^:/?#]+):)?(//([^/?#]*))?([^?#]*)(\?([^#]*))?(#(.*))?")
DEFAULT = {b"http": 80, b"https": 443, b"ws": 80, b"wss": 443}

SCHEMES = ["http", "https", "ws", "wss"]
USERINFO = ["", "u@", "u:p@"]
HOSTS = ["example.com", "EXAMPLE.com", "127.0.0.1", "[::1]", "[2001:db8::1]", "a-b.c"]
PORTS = [None, "", "80", "443", "8080", "1"]
PATHS = ["", "/", "/a/b", "/a;p=1", "/a;p/b;q", "/../a/./b", "/%7Ea", "/a%20b", "/a;", "/;x"]
QUERIES = [None, "", "x=1", "x=1&y=;z", "?"]
FRAGS = [None, "", "f"]


def reference(url: bytes):
    m = RFC3986.match(url)
    scheme, authority, path, query = m.group(2), m.group(4) or b"", m.group(5), m.group(7)
    hostport = authority.rpartition(b"@")[2]
    if hostport.startswith(b"["):
        host, _, rest = hostport[1:].partition(b"]")
        port = rest[1:] if rest.startswith(b":") else b""
    else:
        host, _, port = hostport.partition(b":")
    return {
        "scheme": scheme, "host": host.lower(), "port": int(port) if port else None,
        "target": (path or b"/") + (b"?" + query if query else b""),
    }


def urls(tier):
    hosts = HOSTS if tier == "thorough" else HOSTS[:5]
    paths = PATHS if tier == "thorough" else PATHS[:8]
    queries = QUERIES if tier == "thorough" else QUERIES[:4]
    for sch, ui, host, port, path, q, fr in itertools.product(SCHEMES, USERINFO, hosts, PORTS, paths, queries, FRAGS):
        u = f"{sch}://{ui}{host}"
        if port is not None:
            u += ":" + port
        u += path
        if q is not None:
            u += "?" + q
        if fr is not None:
            u += "#" + fr
        yield u, (sch, ui, host, port, path, q, fr)


def host_header_expected(host: bytes, port, scheme: bytes) -> bytes:
    h = b"[" + host + b"]" if b":" in host else host
    if port is None or port == DEFAULT[scheme]:
        return h
    return h + b":" + str(port).encode()


def check_url(u: str, parts, out, as_bytes: bool):
    """Returns the nontriviality class of this URL."""
    sch, ui, host, port, path, q, fr = parts
    arg = u.encode() if as_bytes else u
    ref = reference(u.encode())

    def bad(kind, msg):
        out.append({"oracle": "C19." + kind, "message": f"{msg} | url={u!r} as_bytes={as_bytes}",
                    "signature": {"harness": "url", "kind": kind, "ipv6": host.startswith("["), "params_last_segment": ";" in path.rsplit("/", 1)[-1]},
                    "case": {"url": u, "as_bytes": as_bytes}})

    try:
        url = httpcore.URL(arg)
    except Exception as e:
        bad("construct", f"URL() raised {type(e).__name__}: {e}")
        return "error"
    if url.scheme != ref["scheme"]:
        bad("scheme", f"scheme {url.scheme!r} != {ref['scheme']!r}")
    if url.host != ref["host"]:
        bad("host", f"host {url.host!r} != {ref['host']!r}")
    if url.port != ref["port"]:
        bad("port", f"port {url.port!r} != {ref['port']!r}")
    if url.target != ref["target"]:
        bad("target", f"target {url.target!r} != {ref['target']!r} (RFC 3986 path+query)")
    if b"#" in url.target or (ui and ui.encode() in url.target):
        bad("target", f"target {url.target!r} carries fragment or userinfo")
    # origin law
    try:
        o = url.origin
        exp_port = ref["port"] or DEFAULT[ref["scheme"]]
        if (o.scheme, o.host, o.port) != (ref["scheme"], ref["host"], exp_port):
            bad("origin", f"origin {o} != {(ref['scheme'], ref['host'], exp_port)}")
    except Exception as e:
        bad("origin", f"origin raised {type(e).__name__}: {e}")
    # round trip
    try:
        again = httpcore.URL(bytes(url))
        if not (again == url):
            bad("roundtrip", f"URL(bytes(u)) = {again!r} != {url!r}")
    except Exception as e:
        bad("roundtrip", f"URL(bytes(u)) raised {type(e).__name__}: {e} (bytes={bytes(url)!r})")
    # synthesised Host
    try:
        hs = include_request_headers([], url=url, content=None)
        hv = [v for k, v in hs if k.lower() == b"host"]
        exp = host_header_expected(ref["host"], ref["port"], ref["scheme"])
        if hv != [exp]:
            bad("host-header", f"synthesised Host {hv!r} != {exp!r}")
    except Exception as e:
        bad("host-header", f"include_request_headers raised {type(e).__name__}: {e}")
    return f"{sch}|ui={bool(ui)}|{'v6' if host.startswith('[') else 'name'}|port={'none' if port is None else ('empty' if port == '' else ('default' if int(port) == DEFAULT[sch.encode()] else 'other'))}|params={';' in path}|q={q is not None and q != ''}|f={fr is not None}"


def origin_pairs(out):
    """explicit-default == implicit; any other difference => unequal."""
    n = 0
    items = []
    for sch in SCHEMES:
        for host in ["a.example", "b.example", "[::1]"]:
            for port in [None, 80, 443, 8080]:
                u = f"{sch}://{host}" + (f":{port}" if port else "") + "/"
                items.append((sch, host, port or DEFAULT[sch.encode()], httpcore.URL(u).origin, u))
    for a, b in itertools.combinations(items, 2):
        n += 1
        same = a[:3] == b[:3]
        if (a[3] == b[3]) != same:
            out.append({"oracle": "C19.origin-eq", "message": f"{a[4]} vs {b[4]}: equal={a[3] == b[3]} expected {same}",
                        "signature": {"harness": "origin-pairs", "kind": "origin-eq"}, "case": {"pair": [a[4], b[4]]}})
    return n


def misc_laws(out):
    n = 0

    def bad(kind, msg, case):
        out.append({"oracle": "C19." + kind, "message": msg, "signature": {"harness": "misc", "kind": kind}, "case": case})

    # non-ASCII text => TypeError, for every text-accepting argument
    for what, fn in [
        ("url", lambda s: httpcore.URL(s)), ("method", lambda s: httpcore.Request(s, "http://a/")),
        ("header-name", lambda s: httpcore.Request("GET", "http://a/", headers=[(s, "v")])),
        ("header-value", lambda s: httpcore.Request("GET", "http://a/", headers={"k": s})),
        ("scheme", lambda s: httpcore.URL(scheme=s, host="a", target="/")),
        ("host", lambda s: httpcore.URL(scheme="http", host=s, target="/")),
        ("target", lambda s: httpcore.URL(scheme="http", host="a", target=s)),
    ]:
        for s in ["http://exämple.com/", "é", "GET ", "x\xff"]:
            n += 1
            try:
                fn(s)
                bad("non-ascii", f"{what}={s!r} accepted", {"what": what, "s": s})
            except TypeError:
                pass
            except Exception as e:
                bad("non-ascii", f"{what}={s!r} raised {type(e).__name__} instead of TypeError", {"what": what, "s": s})
    # header order / duplicates, mapping and sequence, str and bytes
    seqs = [
        [("A", "1"), ("a", "2"), ("B", ""), ("A", "1")],
        [(b"X", b"1"), ("Y", b"2"), (b"X", "3")],
        [],
    ]
    for hs in seqs:
        n += 1
        r = httpcore.Request("GET", "http://a/", headers=hs)
        exp = [(k.encode() if isinstance(k, str) else k, v.encode() if isinstance(v, str) else v) for k, v in hs]
        if r.headers != exp:
            bad("headers", f"sequence {hs!r} -> {r.headers!r}", {"headers": repr(hs)})
    for mp in [{"A": "1", "b": "2", "C": ""}, {b"K": b"v", "k": "w"}]:
        n += 1
        r = httpcore.Request("GET", "http://a/", headers=mp)
        exp = [(k.encode() if isinstance(k, str) else k, v.encode() if isinstance(v, str) else v) for k, v in mp.items()]
        if r.headers != exp:
            bad("headers", f"mapping {mp!r} -> {r.headers!r}", {"headers": repr(mp)})
    # explicit components are taken verbatim
    for sch, host, port, tgt in itertools.product(["http", b"https"], ["h", b"H.x"], [None, 80, 81], ["/", b"*", "/p;a?q#f"]):
        n += 1
        u = httpcore.URL(scheme=sch, host=host, port=port, target=tgt)
        e = lambda x: x.encode() if isinstance(x, str) else x
        if (u.scheme, u.host, u.port, u.target) != (e(sch), e(host), port, e(tgt)):
            bad("components", f"explicit components changed: {u!r}", {"c": repr((sch, host, port, tgt))})
    # the "target" request extension replaces the target only: scheme, host, port and hence the origin stay
    for u_, port_ in (("http://example.com:8080/x", 8080), ("https://example.com/x", None), ("https://[::1]:8443/x", 8443), ("http://example.com:80/x", 80)):
        for tgt in (b"/y?z=1", b"*"):
            n += 1
            r = httpcore.Request("GET", u_, extensions={"target": tgt})
            base = httpcore.URL(u_)
            if (r.url.scheme, r.url.host, r.url.port, r.url.target) != (base.scheme, base.host, base.port, tgt) or r.url.origin != base.origin:
                bad("target-extension", f"Request({u_!r}, target extension {tgt!r}).url = {r.url!r}, origin {r.url.origin}; expected only the target to change (origin {base.origin})",
                    {"url": u_, "target": tgt.decode()})
    # a URL object handed to several requests is not theirs to change
    for tgt in (b"/other", b"*"):
        n += 1
        shared = httpcore.URL("http://example.com:8080/mine?x=1")
        r1 = httpcore.Request("GET", shared)
        r2 = httpcore.Request("GET", shared, extensions={"target": tgt})
        if (shared.target, r1.url.target, r2.url.target) != (b"/mine?x=1", b"/mine?x=1", tgt):
            bad("shared-url-object", f"one URL object used for two requests, the second with the target extension {tgt!r}: afterwards the object says {shared.target!r}, "
                f"the first request {r1.url.target!r}, the second {r2.url.target!r}", {"target": tgt.decode()})
    # content kinds: Host always first when synthesised; CL for bytes, TE for iterators, nothing for None,
    # nothing added when the caller supplied the header (any case)
    url = httpcore.URL("http://h:81/")
    for content, given, exp_extra in [
        (None, [], []), (b"", [], [(b"Content-Length", b"0")]), (b"abc", [], [(b"Content-Length", b"3")]),
        (iter([b"a"]), [], [(b"Transfer-Encoding", b"chunked")]),
        (b"abc", [(b"content-LENGTH", b"3")], []), (b"abc", [(b"transfer-encoding", b"chunked")], []),
        (iter([b"a"]), [(b"CONTENT-length", b"1")], []),
    ]:
        n += 1
        hs = include_request_headers(list(given), url=url, content=content)
        exp = [(b"Host", b"h:81")] + given + exp_extra
        if hs != exp:
            bad("default-headers", f"content={content!r} given={given!r}: {hs!r} != {exp!r}", {"given": repr(given)})
    n += 1
    hs = include_request_headers([(b"X", b"1"), (b"hOsT", b"me")], url=url, content=None)
    if hs != [(b"X", b"1"), (b"hOsT", b"me")]:
        bad("default-headers", f"Host supplied by caller but headers became {hs!r}", {})
    return n


WIRE_HEADERS = [("X-Dup", "1"), ("x-other", "o"), ("X-Dup", "2"), ("x-dup", "3"), ("X-Empty", "")]


def wire_host(out):
    """The Host header / HTTP/2 :authority actually written for every host form x port form, HTTP/1.1 and HTTP/2,
    sync and async (the synthesised default is judged above; this is what reaches the server)."""
    from .. import scen
    from ..engine import Chooser
    from ..seqworld import SeqWorld
    n = 0
    for sch, host, port, proto, variant in itertools.product(["http", "https"], HOSTS, [None, "80", "443", "8080"], ["h1", "h2", "h1-fwd"], ["sync", "async"]):
        if proto == "h1-fwd" and sch != "http":
            continue
        n += 1
        ct = {("http", "h1"): "h11", ("http", "h2"): "h2pk", ("https", "h1"): "h11tls", ("https", "h2"): "h2alpn", ("http", "h1-fwd"): "fwd"}[(sch, proto)]
        fwd = proto == "h1-fwd"
        if proto == "h1-fwd":
            proto = "h1"            # through a forwarding proxy: the header list still arrives whole
        u = f"{sch}://{host}" + (f":{port}" if port is not None else "") + "/t/tok"
        ref = reference(u.encode())
        exp = host_header_expected(ref["host"], ref["port"], ref["scheme"])
        topo = scen.Topology(scen.CONN_TYPES[ct])
        w = SeqWorld(Chooser([]), topo.router, variant=variant)
        w.env.fp = None
        pool = scen.make_pool(ct, w.backend, variant)
        res = []
        if variant == "sync":
            def prog():
                try:
                    r = pool.request("GET", u, headers=list(WIRE_HEADERS))
                    res.append(("ok", r.status))
                except Exception as e:
                    res.append(("exc", f"{type(e).__name__}: {e}"))
                pool.close()
            w.run(sync_fn=prog)
        else:
            async def aprog():
                try:
                    r = await pool.request("GET", u, headers=list(WIRE_HEADERS))
                    res.append(("ok", r.status))
                except Exception as e:
                    res.append(("exc", f"{type(e).__name__}: {e}"))
                await pool.aclose()
            w.run(async_fn=aprog)
        if proto == "h1":
            seen = [v for c in topo.all_h1_conns() for r in c.parser.requests for k, v in r.headers if k.lower() == b"host"]
        else:
            seen = [v for c in topo.all_h2_conns() for sid in c.order for k, v in c.streams[sid].headers if k in (b":authority", b"host")]
        if proto == "h1":
            wire_hdrs = [(k, v) for c in topo.all_h1_conns() for r in c.parser.requests for k, v in r.headers if k.lower() != b"host"]
            want_hdrs = [(k.encode(), v.encode()) for k, v in WIRE_HEADERS]
        else:
            wire_hdrs = [(k, v) for c in topo.all_h2_conns() for sid in c.order for k, v in c.streams[sid].headers if not k.startswith(b":")]
            want_hdrs = [(k.lower().encode(), v.encode()) for k, v in WIRE_HEADERS]
        if fwd:
            # the absolute-form request target is the URL serialised: it must parse back to the URL that was asked for
            tg = [r.target for c in topo.all_h1_conns() for r in c.parser.requests]
            ok_t = len(tg) == 1
            if ok_t:
                try:
                    back = httpcore.URL(tg[0])
                    ok_t = back == httpcore.URL(u) and reference(tg[0])["host"] == ref["host"]
                except Exception:
                    ok_t = False
            if not ok_t:
                out.append({"oracle": "C19.forward-target", "message": f"{u} through a forwarding proxy ({variant}): request target on the wire {tg} does not parse back to the requested URL",
                            "signature": {"harness": "wire-host", "kind": "forward-target", "ipv6": host.startswith("[")}, "case": {"wire": True}})
        if wire_hdrs != want_hdrs:
            out.append({"oracle": "C19.wire-headers", "message": f"{u} over {ct} ({variant}): header list on the wire {wire_hdrs}, the caller gave {WIRE_HEADERS} (order and duplicates must be kept)",
                        "signature": {"harness": "wire-host", "kind": "wire-headers", "proto": proto}, "case": {"wire": True}})
        if res[:1] != [("ok", 200)] or seen != [exp]:
            out.append({"oracle": "C19.wire-host", "message": f"{u} over {ct} ({variant}): result {res}, server saw Host/:authority {seen}, expected {[exp]}",
                        "signature": {"harness": "wire-host", "kind": "wire-host", "proto": proto, "ipv6": host.startswith("[")},
                        "case": {"wire": True}})
    return n


class _Seq(collections.abc.Sequence):
    def __init__(self, items):
        self._items = list(items)

    def __getitem__(self, i):
        return self._items[i]

    def __len__(self):
        return len(self._items)

    def __eq__(self, other):
        return isinstance(other, _Seq) and other._items == self._items


def header_reuse(out):
    """One header container (list of bytes pairs with and without Host, list of str pairs, mapping) given to three POSTs with bodies of
    different lengths: every transmission carries the Content-Length of its own body (a default header synthesised for one request
    must not survive in the caller's container), and the container is unchanged afterwards."""
    import copy
    from .. import scen
    from ..engine import Chooser
    from ..seqworld import SeqWorld
    forms = {
        "bytes-pairs-host": lambda: [(b"Host", b"a.example"), (b"X-K", b"v")],
        "bytes-pairs": lambda: [(b"X-K", b"v")],
        "str-pairs-host": lambda: [("Host", "a.example"), ("X-K", "v")],
        "mapping": lambda: {"Host": "a.example", "X-K": "v"},
        "empty-list": lambda: [],
        # any Mapping / Sequence is a header container, not only dict and list
        "tuple-of-pairs": lambda: (("Host", "a.example"), ("X-K", "v")),
        "mappingproxy": lambda: types.MappingProxyType({"Host": "a.example", "X-K": "v"}),
        "userdict": lambda: collections.UserDict({"Host": "a.example", "X-K": "v"}),
        "chainmap": lambda: collections.ChainMap({"Host": "a.example"}, {"X-K": "v"}),
        "userlist": lambda: collections.UserList([("Host", "a.example"), ("X-K", "v")]),
        "abc-sequence": lambda: _Seq([(b"Host", b"a.example"), (b"X-K", b"v")]),
    }
    bodies = [b"12345", b"1234567890abc", b""]
    n = 0
    for (fname, mk), ct, variant in itertools.product(forms.items(), ["h11", "h2pk", "fwd"], ["sync", "async"]):
        n += 1
        topo = scen.Topology(scen.CONN_TYPES[ct])
        w = SeqWorld(Chooser([]), topo.router, variant=variant)
        w.env.fp = None
        pool = scen.make_pool(ct, w.backend, variant)
        hdrs = mk()
        before = mk() if isinstance(hdrs, (types.MappingProxyType, collections.ChainMap)) else copy.deepcopy(hdrs)
        res = []
        url = "http://a.example/t/tok"
        if variant == "sync":
            def prog():
                for b_ in bodies:
                    try:
                        r = pool.request("POST", url, headers=hdrs, content=b_)
                        res.append(("ok", r.status))
                    except Exception as e:
                        res.append(("exc", f"{type(e).__name__}: {e}"))
                pool.close()
            w.run(sync_fn=prog)
        else:
            async def aprog():
                for b_ in bodies:
                    try:
                        r = await pool.request("POST", url, headers=hdrs, content=b_)
                        res.append(("ok", r.status))
                    except Exception as e:
                        res.append(("exc", f"{type(e).__name__}: {e}"))
                await pool.aclose()
            w.run(async_fn=aprog)
        sig = {"harness": "header-reuse", "form": fname, "proto": ct}
        if hdrs != before:
            out.append({"oracle": "C19.caller-headers-mutated", "message": f"the caller's header container ({fname}) was {before} and is {hdrs} after three requests over {ct} ({variant})",
                        "signature": dict(sig, kind="caller-headers-mutated"), "case": {"reuse": True}})
        if ct == "h2pk":
            seen = [(dict(c.streams[sid].headers).get(b"content-length"), bytes(c.streams[sid].body)) for c in topo.all_h2_conns() for sid in c.order]
        else:
            seen = [(next((v for k, v in r.headers if k.lower() == b"content-length"), None), bytes(r.body)) for c in topo.all_h1_conns() for r in c.parser.requests]
        want = [(str(len(b_)).encode(), b_) for b_ in bodies]
        if res != [("ok", 200)] * 3 or seen != want:
            out.append({"oracle": "C19.content-length", "message": f"three POSTs sharing one header container ({fname}) over {ct} ({variant}): results {res}; the server saw (Content-Length, body) {seen}, expected {want}",
                        "signature": dict(sig, kind="content-length"), "case": {"reuse": True}})
    return n


def replay_case(case):
    out = []
    if "wire" in case:
        wire_host(out)
    elif "reuse" in case:
        header_reuse(out)
    elif "url" in case:
        u = case["url"]
        m = re.match(r"^([a-z]+)://([^/@]*@)?(\[[^\]]*\]|[^:/?#]*)(:(\d*))?([^?#]*)(\?([^#]*))?(#(.*))?$", u)
        parts = (m.group(1), m.group(2) or "", m.group(3), m.group(5) if m.group(4) else None, m.group(6), m.group(8) if m.group(7) else None,
                 m.group(10) if m.group(9) else None)
        check_url(u, parts, out, case.get("as_bytes", False))
    elif "pair" in case:
        origin_pairs(out)
    else:
        misc_laws(out)
    return out


def check(tier="quick", seed=0, workers=None, only=None):
    out = []
    classes = set()
    n = 0
    samples = []
    for u, parts in urls(tier):
        for as_bytes in (False, True):
            n += 1
            classes.add(check_url(u, parts, out, as_bytes))
        if n % 9973 < 2 and len(samples) < 6:
            samples.append({"url": u, "reference": {k: (v.decode() if isinstance(v, bytes) else v) for k, v in reference(u.encode()).items()}})
    n_pairs = origin_pairs(out)
    n_misc = misc_laws(out)
    n_wire = wire_host(out)
    n_wire += header_reuse(out)
    cov = {
        "evaluations": n + n_pairs + n_misc + n_wire,
        "distinct_nontrivial": len(classes),
        "rule": ("full product scheme x userinfo x host x port x path x query x fragment, each as str and as bytes, against the RFC 3986 "
                 "appendix-B regular expression; Host / :authority as received by the simulated servers for every host form x port form on HTTP/1.1 and HTTP/2; plus all pairs of origins over 4 schemes x 3 hosts x 4 ports, non-ASCII rejection, header and "
                 "content-kind laws; non-trivial class = (scheme, userinfo?, host form, port form, params?, query?, fragment?)"),
        "samples": samples,
        "exhaustive": True,
        "urls": n, "origin_pairs": n_pairs, "misc_cases": n_misc, "wire_host_runs": n_wire,
    }
    return {"level": "exploration", "coverage": cov, "violations": out,
            "assumptions": ["reference = RFC 3986 appendix B regex + host lower-casing + bracket stripping for the connect host"]}
