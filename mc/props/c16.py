"""C16 — timeouts are applied, and to the right operations.

(a) sequential world: every connection type x timeout configurations (four distinct
    values / each key absent / each key 0) x response framing with an interim 1xx,
    with one read cut anywhere (so that every read call site is reached); oracle: the
    timeout argument recorded for every simulated connect / start_tls / read / write.
(b) asyncio world with the virtual clock: a queued request with a pool timeout, all
    orders of deadline vs. release; PoolTimeout exactly at enqueue + T, request forgotten.
"""
from __future__ import annotations

import httpcore

from .. import engine, evidence, scen
from ..engine import Execution, Violation, make_spec
from ..seqworld import SeqWorld, exc_class
from . import common, conc

MOD = "mc.props.c16"
FULL = {"connect": 1.1, "read": 2.2, "write": 3.3, "pool": 4.4}


def tconfs():
    out = [("full", dict(FULL))]
    for k in FULL:
        d = dict(FULL)
        del d[k]
        out.append((f"no-{k}", d))
        d = dict(FULL)
        d[k] = 0
        out.append((f"zero-{k}", d))
    out.append(("none", {}))
    return out


class TimeoutHarness:
    horizon = 3000

    def __init__(self, ct, variant, tconf, framing="interim", method="POST"):
        self.ct = ct
        self.variant = variant
        self.tname = tconf
        self.tconf = dict(next(d for n, d in tconfs() if n == tconf))
        self.framing = framing
        self.method = method

    def run(self, chooser) -> Execution:
        ct = self.ct
        topo = scen.Topology(scen.CONN_TYPES[ct], framing=self.framing)
        def http_started(op):
            # SOCKS replies are read with a single read() by design of the negotiation code (C15's business, not C16's)
            return any(o.tr is op.tr and o.kind == "write" and o.args["data"][:1] not in (b"\x05", b"\x01") for o in w.net.ledger[: op.i])
        w = SeqWorld(chooser, topo.router, variant=self.variant, segment=True, seg_cost=1, faults=0, seg_filter=http_started)
        pool = scen.make_pool(ct, w.backend, self.variant)
        w.roots.append(pool)
        ext = {"timeout": dict(self.tconf)} if self.tname != "none" else {}
        url = scen.url_for(ct, token="tmo")
        body = b"payload" if self.method == "POST" else None
        if self.variant == "sync":
            def prog():
                r = pool.request(self.method, url, content=body, extensions=ext)
                r2 = pool.request("GET", scen.url_for(ct, token="second"), extensions=ext)
                pool.close()
                return (r.status, r2.status)
            res = w.run(sync_fn=prog)
        else:
            async def aprog():
                r = await pool.request(self.method, url, content=body, extensions=ext)
                r2 = await pool.request("GET", scen.url_for(ct, token="second"), extensions=ext)
                await pool.aclose()
                return (r.status, r2.status)
            res = w.run(async_fn=aprog)
        ex = Execution()
        ex.notes["unmergeable"] = sorted(w.unmergeable)
        ex.trace = [op.rec() for op in w.net.ledger]
        sig = {"harness": "timeouts", "ct": self.ct, "tconf": self.tname}
        t = self.tconf
        ctd = scen.CONN_TYPES[ct]

        def viol(kind, msg, **x):
            ex.violations.append(Violation("C16." + kind, f"{msg} | ct={ct} variant={self.variant} timeouts={t}", dict(sig, kind=kind, **x)))

        if res[0] != "ok":
            viol("harness-" + res[0], f"program did not finish: {res[0]} {res[1] if len(res) > 1 else ''}")
            ex.outcome = res[0]
            return ex
        configured = {t[k] for k in ("connect", "read", "write") if k in t}
        all_three = all(k in t for k in ("connect", "read", "write"))
        from .seqfault import SeqFaultHarness
        stager = SeqFaultHarness(ct, self.variant)
        nreads = 0
        for op in w.net.ledger:
            if op.kind not in ("connect_tcp", "connect_unix", "start_tls", "read", "write"):
                continue
            got = op.args.get("timeout")
            stage = stager._stage(w, op)
            if op.kind in ("connect_tcp", "connect_unix", "start_tls"):
                want = t.get("connect")
                if got != want:
                    viol("connect-timeout", f"{op.kind} (op {op.i}) issued with timeout={got}, connect timeout is {want}", op=op.kind, stage=stage)
                continue
            if op.kind == "read":
                nreads += 1
            if stage == "proxy-negotiation":
                ok = got in configured or (got is None and not all_three)
                if not ok:
                    viol("negotiation-timeout", f"{op.kind} (op {op.i}) during proxy negotiation issued with timeout={got}; configured {sorted(configured)}",
                         op=op.kind, proxy=ctd["proxy"])
                continue
            want = t.get("read" if op.kind == "read" else "write")
            if got != want:
                viol(f"{op.kind}-timeout", f"{op.kind} (op {op.i}, {nreads if op.kind == 'read' else ''}) issued with timeout={got}, expected {want}", op=op.kind, stage=stage)
        ex.outcome = f"ok:{res[1]}:reads={nreads}"
        ex.nontrivial = any(p[2] != 0 for p in chooser.points)
        return ex


def specs(tier):
    out = []
    for ct in list(scen.CONN_TYPES) + list(scen.LEGACY_TYPES):
        for variant in ("sync", "async"):
            for name, _ in tconfs():
                if ct in scen.LEGACY_TYPES and tier == "quick" and name != "full":
                    continue
                if tier == "quick" and name.startswith("zero-") and name != "zero-read":
                    continue
                if tier == "quick" and variant == "async" and name not in ("full", "no-read", "none"):
                    continue      # the async twin is checked on three configurations in quick (C18 ties the variants together)
                out.append(make_spec(MOD, "TimeoutHarness", ct=ct, variant=variant, tconf=name))
    return out


def check(tier="quick", seed=0, workers=None, only=None):
    sp = common.filt(specs(tier), only)
    st = engine.explore_many(sp, workers=workers, bound=1, seed=seed, max_violations=60)
    cst, cinfo = conc.run_for("C16", tier, seed, workers, only)
    from . import backends
    bst, binfo = backends.run_for(tier, seed, workers, only)
    total = engine.Stats(bound=1)
    total.merge_from(st)
    total.merge_from(cst)
    total.merge_from(bst)
    from . import rconc
    rst, rinfo = rconc.run_for("C16", tier, seed, workers, only)
    total.merge_from(rst)
    total.samples = st.samples[:3] + cst.samples[:3]
    viols = common.collect(total, ("C16",))
    from . import apiuse
    viols += apiuse.run_all(("C16",))[1] if not only else []
    cov = evidence.stats_coverage(
        total,
        rule=("(a) every connection type x 10 timeout configurations x variant, request with body answered with an interim 1xx + final response, then a second request; "
              "one read cut anywhere (deviation bound 1) so that every read call site issues its own network read; every connect/start_tls/read/write in the ledger judged; "
              "(c) the real SyncBackend / AnyIOBackend / TrioBackend over OS-level fakes: the limit in effect at every OS-level operation (settimeout value / innermost fail_after scope) "
              "must be the request's connect / read / write value; (b) pool-timeout scenarios on the virtual loop (and, smaller, in the trio world with the clock advanced to the next trio deadline by the explorer), all orders of deadline vs release; non-trivial = outcome class of an execution with a cut / a timer event"),
        extra={"sequential_scenarios": len(sp), "pool_timeout": cinfo, "real_backends": binfo, "pool_timeout_trio": rinfo})
    return {"level": "model_checking", "coverage": cov, "violations": viols,
            "assumptions": ["proxy negotiation operations may carry any of the configured connect/read/write values; None is accepted there only when one of the three is absent",
                            "PoolTimeout must be raised at (virtual) enqueue time + T; a re-queued request restarts its clock (the only reading under which the retry loop is judged)"]}


def replay_case(case):
    from . import apiuse
    return apiuse.replay_case(case, ("C16",))
