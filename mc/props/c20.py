"""C20 — connection retries are bounded and limited to establishment.

Exhaustive enumeration (prefix-closed tree) of outcome sequences of the establishment
operations: every connect_tcp / connect_unix_socket / start_tls is answered by the
chooser with success, ConnectError, ConnectTimeout or an unrelated failure
(ReadTimeout, WriteError, OSError); then the exchange succeeds or fails after
establishment.  Oracle = reference model of the retry loop."""
from __future__ import annotations

import httpcore

from .. import engine, evidence
from ..engine import Execution, Violation, make_spec
from ..seqworld import SeqWorld, exc_class
from ..simnet import core as sim
from ..simnet.http1 import H1Server, make_echo_responder
from . import common

MOD = "mc.props.c20"
RETRYABLE = ("ConnectError", "ConnectTimeout")
OTHER = ("ReadTimeout", "WriteError", "OSError")


def backoff(n):
    out, d = [], None
    for i in range(n):
        out.append(0 if i == 0 else 0.5 * 2 ** (i - 1))
    return out


class RetryHarness:
    horizon = 200

    def __init__(self, variant, retries, scheme="http", uds=False, exchange_fault=True, via_auto=False):
        self.via_auto = via_auto      # async only: the library's default AutoBackend object delegating to the simulated backend
        self.variant = variant
        self.retries = retries
        self.scheme = scheme
        self.uds = uds
        self.exchange_fault = exchange_fault

    def run(self, chooser) -> Execution:
        server = H1Server(make_echo_responder("cl"), alpn="http/1.1")
        kinds = {"connect": list(RETRYABLE + OTHER), "start_tls": list(RETRYABLE + OTHER),
                 "read": ["ReadError"] if self.exchange_fault else [], "write": []}
        w = SeqWorld(chooser, lambda kind, host, port: server.new_conn(), variant=self.variant, faults=50, fault_kinds=kinds)
        w.env.fp = None     # plain tree enumeration, no merging needed
        cls = httpcore.ConnectionPool if self.variant == "sync" else httpcore.AsyncConnectionPool
        backend = w.backend
        auto = None
        if self.via_auto:
            # what a pool created without network_backend= uses: AutoBackend picks the concrete backend lazily and delegates
            # connect_tcp / connect_unix_socket / sleep to it; here the concrete backend is the simulated one
            from httpcore._backends.auto import AutoBackend
            auto = backend = AutoBackend()
            auto._backend = w.backend
        pool = cls(ssl_context=sim.RecordingSSLContext("origin"), retries=self.retries, network_backend=backend,
                   uds="/run/sock" if self.uds else None)
        url = f"{self.scheme}://a.example/t/tok"
        if self.variant == "sync":
            def prog():
                try:
                    r = pool.request("GET", url)
                    return ("ok", r.status)
                finally:
                    pool.close()
            res = w.run(sync_fn=prog)
        else:
            async def aprog():
                try:
                    r = await pool.request("GET", url)
                    return ("ok", r.status)
                finally:
                    await pool.aclose()
            res = w.run(async_fn=aprog)
        if auto is not None and getattr(auto, "_backend", None) is not w.backend:
            raise engine.MachineryError("AutoBackend no longer keeps its concrete backend in _backend: the via_auto seam of C20 does not apply")
        ex = Execution()
        ledger = w.net.ledger
        ex.trace = [op.rec() for op in ledger]
        sig = {"harness": "retry", "scheme": self.scheme, "uds": self.uds, "retries": self.retries}
        if self.via_auto:
            sig["via_auto"] = True

        def viol(kind, msg):
            ex.violations.append(Violation("C20." + kind, f"{msg} | variant={self.variant} N={self.retries} scheme={self.scheme} uds={self.uds} "
                                           f"ops={[(o.kind, o.state) for o in ledger if o.kind != 'close']}", dict(sig, kind=kind)))

        # ---- reference model driven by the observed outcomes of establishment operations
        est = [o for o in ledger if o.kind in ("connect_tcp", "connect_unix", "start_tls", "sleep")]
        want_connect = "connect_unix" if self.uds else "connect_tcp"
        tls = self.scheme == "https"
        expected_final = None
        i = 0
        retries_left = self.retries
        delays = iter(backoff(100))
        established = False
        model_ok = True
        attempts = 0
        while True:
            attempts += 1
            if i >= len(est) or est[i].kind != want_connect:
                viol("sequence", f"expected {want_connect} as establishment op #{i}, ledger has {est[i].kind if i < len(est) else 'nothing'}")
                model_ok = False
                break
            stage_fail = None
            if est[i].state != "ok":
                stage_fail = est[i].state.split(":", 1)[1]
                i += 1
            else:
                i += 1
                if tls:
                    if i >= len(est) or est[i].kind != "start_tls":
                        viol("sequence", f"expected start_tls as establishment op #{i}")
                        model_ok = False
                        break
                    if est[i].state != "ok":
                        stage_fail = est[i].state.split(":", 1)[1]
                    i += 1
            if stage_fail is None:
                established = True
                break
            if stage_fail in RETRYABLE and retries_left > 0:
                retries_left -= 1
                d = next(delays)
                if i >= len(est) or est[i].kind != "sleep":
                    viol("no-backoff", f"retry without the pause of {d}s")
                    model_ok = False
                    break
                if est[i].args["seconds"] != d:
                    viol("backoff", f"pause #{attempts} is {est[i].args['seconds']}s, expected {d}s")
                i += 1
                continue
            expected_final = stage_fail
            break
        if model_ok:
            if i != len(est):
                viol("extra-ops", f"establishment operations after the loop must have ended: {[(o.kind, o.state) for o in est[i:]]}")
            if attempts > self.retries + 1:
                viol("too-many-attempts", f"{attempts} attempts with retries={self.retries}")
            want_sleeps = backoff(attempts - 1)
            if w.net.sleeps != want_sleeps:
                viol("backoff", f"sleeps {w.net.sleeps} != {want_sleeps}")
            if res[0] == "ok":
                if not established:
                    viol("masked-failure", f"call returned {res[1]} although establishment ended with {expected_final}")
            elif res[0] == "exc":
                e = res[1]
                if established:
                    # failure after establishment: must be the injected exchange fault, never retried
                    n_conn = sum(1 for o in est if o.kind == want_connect)
                    if not isinstance(e, httpcore.ReadError):
                        viol("post-establishment", f"unexpected {exc_class(e)} after establishment")
                    if n_conn != attempts:
                        viol("post-establishment-retry", "a failure after establishment triggered another connect")
                else:
                    name = type(e).__name__
                    if name != expected_final:
                        viol("wrong-error", f"raised {exc_class(e)}, the last establishment error was {expected_final}")
            else:
                viol(res[0], "caller did not terminate")
        still = [repr(t) for t in w.net.open_transports()]
        if still:
            viol("stream-left-open", f"C06: streams open after pool close: {still}")
        ex.outcome = f"att={attempts} est={established} final={expected_final} res={res[0] if res[0] != 'exc' else type(res[1]).__name__}"
        ex.nontrivial = attempts > 1 or not established
        return ex


class BareRetryHarness:
    """Two requests on ONE connection object used directly (no pool): when the first fails during establishment the second runs
    the establishment loop again on the same object - attempts, pauses (starting at 0 again) and the raised error are judged per request."""
    horizon = 400

    def __init__(self, variant, retries, scheme="http"):
        self.variant = variant
        self.retries = retries
        self.scheme = scheme

    def run(self, chooser) -> Execution:
        server = H1Server(make_echo_responder("cl"), alpn="http/1.1")
        kinds = {"connect": list(RETRYABLE), "start_tls": list(RETRYABLE), "read": [], "write": []}
        w = SeqWorld(chooser, lambda kind, host, port: server.new_conn(), variant=self.variant, faults=50, fault_kinds=kinds)
        w.env.fp = None
        cls = httpcore.HTTPConnection if self.variant == "sync" else httpcore.AsyncHTTPConnection
        port = 443 if self.scheme == "https" else 80
        conn = cls(origin=httpcore.Origin(self.scheme.encode(), b"a.example", port), ssl_context=sim.RecordingSSLContext("origin"),
                   retries=self.retries, network_backend=w.backend)
        url = f"{self.scheme}://a.example/t/tok"
        marks, results = [], []
        if self.variant == "sync":
            def prog():
                for _ in range(2):
                    marks.append((len(w.net.ledger), len(w.net.sleeps)))
                    try:
                        r = conn.request("GET", url)
                        results.append(("ok", r.status))
                    except Exception as e:
                        results.append(("exc", e))
                conn.close()
            res = w.run(sync_fn=prog)
        else:
            async def aprog():
                for _ in range(2):
                    marks.append((len(w.net.ledger), len(w.net.sleeps)))
                    try:
                        r = await conn.request("GET", url)
                        results.append(("ok", r.status))
                    except Exception as e:
                        results.append(("exc", e))
                await conn.aclose()
            res = w.run(async_fn=aprog)
        ex = Execution()
        ledger = w.net.ledger
        ex.trace = [op.rec() for op in ledger]
        sig = {"harness": "retry-bare", "scheme": self.scheme, "retries": self.retries}

        def viol(kind, msg):
            ex.violations.append(Violation("C20." + kind, f"{msg} | bare connection, variant={self.variant} N={self.retries} scheme={self.scheme} "
                                           f"ops={[(o.kind, o.state) for o in ledger if o.kind != 'close']} sleeps={w.net.sleeps} results={[(r_[0], type(r_[1]).__name__ if r_[0] == 'exc' else r_[1]) for r_ in results]}",
                                           dict(sig, kind=kind)))
        if res[0] != "ok":
            viol(res[0], f"program did not finish: {res}")
            ex.outcome = res[0]
            return ex
        marks.append((len(ledger), len(w.net.sleeps)))
        descr = []
        for i in range(2):
            seg = ledger[marks[i][0]:marks[i + 1][0]]
            sleeps = w.net.sleeps[marks[i][1]:marks[i + 1][1]]
            connects = [o for o in seg if o.kind == "connect_tcp"]
            attempts = len(connects)
            fails = [o for o in seg if o.kind in ("connect_tcp", "start_tls") and o.state != "ok"]
            descr.append((attempts, len(fails), results[i][0]))
            if attempts == 0:
                continue            # the connection was already established (or is closed): nothing to establish
            if attempts > self.retries + 1:
                viol("too-many-attempts", f"request {i + 1}: {attempts} attempts with retries={self.retries}")
            if sleeps != backoff(attempts - 1):
                viol("backoff", f"request {i + 1}: pauses {sleeps} for {attempts} attempts, expected {backoff(attempts - 1)} (the schedule starts again for every run of the establishment loop)")
            if results[i][0] == "exc":
                want = fails[-1].state.split(":", 1)[1] if fails else None
                if type(results[i][1]).__name__ != want:
                    viol("wrong-error", f"request {i + 1} raised {exc_class(results[i][1])}, the last establishment error was {want}")
                if len(fails) != attempts or attempts != self.retries + 1:
                    viol("gave-up-early", f"request {i + 1} failed after {attempts} attempts ({len(fails)} failed) with retries={self.retries}")
        still = [repr(t) for t in w.net.open_transports()]
        if still:
            viol("stream-left-open", f"C06: streams open after the connection was closed: {still}")
        ex.outcome = str(descr)
        ex.nontrivial = any(d[0] > 1 for d in descr)
        return ex


def specs(tier, variants=("sync", "async")):
    out = []
    for variant in variants:
        for n in range(0, 5 if tier == "thorough" else 4):
            for scheme in ("http", "https"):
                for uds in (False, True):
                    out.append(make_spec(MOD, "RetryHarness", variant=variant, retries=n, scheme=scheme, uds=uds))
                    if variant == "async" and n in (0, 2, 3):
                        out.append(make_spec(MOD, "RetryHarness", variant=variant, retries=n, scheme=scheme, uds=uds, via_auto=True))
        for n in ((1, 2) if tier == "quick" else (1, 2, 3)):
            for scheme in ("http", "https"):
                out.append(make_spec(MOD, "BareRetryHarness", variant=variant, retries=n, scheme=scheme))
    return out


def diff_params(tier):
    return ("mc.props.c20", "RetryHarness", [dict(retries=n, scheme=s, uds=u) for n in (0, 2) for s in ("http", "https") for u in (False, True)])


def check(tier="quick", seed=0, workers=None, only=None):
    sp = common.filt(specs(tier), only)
    st = engine.explore_many(sp, workers=workers, bound=None, merge=False, seed=seed, max_violations=50, max_execs=2000000)
    viols = common.collect(st, ("C20",))
    from . import conc
    cst, cinfo = conc.run_for("C20", tier, seed, workers, only)
    for v in common.collect(cst, ("C14",)):
        if v["oracle"] == "C14.request-sent-twice":
            v = dict(v, oracle="C20.resent-after-establishment", message="a request that failed after the connection was established was sent again: " + v["message"])
            viols.append(v)
    from . import backends
    bst, binfo = backends.run_for(tier, seed, workers, None, purpose="retries") if not only else (engine.Stats(bound=1), {})
    viols += common.collect(bst, ("C20",))
    st.evaluations += bst.evaluations
    st.evaluations += cst.evaluations
    st.states += cst.states
    st.transitions += cst.transitions
    cov = evidence.stats_coverage(
        st,
        rule=("prefix-closed tree of outcome sequences: every establishment operation answered with success / ConnectError / ConnectTimeout / "
              "ReadTimeout / WriteError / OSError, at the TCP (or Unix-socket) and TLS stages, then the exchange succeeds or fails with ReadError; "
              "two requests in a row on one directly used connection object (the establishment loop runs again on the same object); for retries N in 0..3 (quick) / 0..4 (thorough), http and https, TCP and UDS, sync and async, and (async, N in 0,2,3) through the library's default AutoBackend object delegating to the simulated backend; no merging: executions = leaves; "
              "non-trivial = outcome class (attempts, established?, final error) with more than one attempt or a failed establishment"),
        extra={"scenarios": len(sp), "goaway_resend_scenarios": cinfo, "real_backends_with_retries": binfo})
    return {"level": "fault_enumeration", "coverage": cov, "violations": viols,
            "assumptions": ["reference model: attempts <= N+1, pauses 0,0.5,1,2,..., only ConnectError/ConnectTimeout retried, last error raised, nothing after establishment retried"]}
