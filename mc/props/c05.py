"""C05 — failed and cancelled requests give their pool slot back.

Part 1 (this file, sequential world): every network operation of every connection type
x every documented fault kind, sync and async, fresh / warm connection, GET / POST,
request() / early close.  Part 2 (mc.props.conc): cancellation at every suspension
point and faults with a second caller present, on the virtual asyncio loop.
"""
from __future__ import annotations

from .. import engine, evidence, scen
from ..engine import make_spec
from . import common

PID = "C05"
PREFIXES = ("C05",)


def seq_specs(tier):
    out = []
    for ct in list(scen.CONN_TYPES) + list(scen.LEGACY_TYPES):
        for variant in ("sync", "async"):
            for method in ("GET", "POST"):
                for warm in (False, True):
                    for consume in ("request", "early-close"):
                        if tier == "quick" and consume == "early-close" and (method == "POST" or warm):
                            continue
                        if ct in scen.LEGACY_TYPES and (tier == "quick" and (method == "POST" or consume != "request")):
                            continue
                        out.append(make_spec("mc.props.seqfault", "SeqFaultHarness", ct=ct, variant=variant, method=method,
                                             warm=warm, consume=consume))
    return out


def retry_specs(tier):
    """Histories with a connection retry: the first fault(s) hit the TCP/TLS stage and are absorbed by `retries`,
    the last one lands anywhere in the later attempt (fault budget = deviation bound = retries + 1)."""
    out = []
    for n in ((1,) if tier == "quick" else (1, 2)):
        for ct in scen.CONN_TYPES:
            for variant in ("sync", "async"):
                for method in ("GET", "POST"):
                    out.append((n + 1, make_spec("mc.props.seqfault", "SeqFaultHarness", ct=ct, variant=variant, method=method,
                                                 warm=False, consume="request", retries=n, faults=n + 1)))
    return out


def thread_part(pid, tier, seed, workers, only):
    """Failure paths of the sync pool under real threads (pre-emption bounded, mc/props/c08.py), judged by this property's oracle only:
    C05 - no request still counted after all threads returned; C06 - no stream open after pool.close()."""
    import multiprocessing as mp
    import os
    from .c08 import S
    quick = tier == "quick"
    P = dict(prefix=pid)
    scs = [
        # idle connections expire while a connect is failing slowly; the failure path's retiring pass races another thread's pass
        (S("h11", ["req:a:w", "req:b:w", "fail:x:t6", "tick:6", "req:c"], max_connections=4, keepalive_expiry=5.0, granularity="pool-line", **P), 1 if quick else 2),
        (S("h11", ["req:a:w", "req:b:w", "fail:x:t6", "tick:6", "req:c"], max_connections=4, keepalive_expiry=5.0, granularity="sync", **P), 2 if quick else 3),
        # a refused connect leaves through the failure path while another request is queued and a third arrives
        (S("h11", ["fail:x:g1", "req:a", "req:b"], max_connections=1, granularity="pool-line", **P), 1 if quick else 2),
        (S("h11", ["fail:x:g1", "req:a", "req:b"], max_connections=1, granularity="sync", **P), 2),
    ]
    if not quick:
        scs.append((S("h11", ["req:a:w", "req:b:w", "fail:x:t6", "tick:6", "req:c"], max_connections=4, keepalive_expiry=5.0, granularity="line", **P), 1))
    if only:
        scs = [x for x in scs if only in x[0][1] + x[0][2]]
    total = engine.Stats(bound=None)
    per = []
    if not scs:
        return total, {}
    with mp.get_context("fork").Pool(workers or min(16, os.cpu_count() or 1)) as pool:
        for spec, bound in scs:
            st = engine.explore(spec, bound=bound, merge=False, pool=pool, seed=seed, max_violations=100,
                                max_execs=150000 if quick else 1000000, max_seconds=40 if quick else 240, recheck=1)
            per.append({"scenario": spec[2][:170], "preemption_bound": bound, "executions": st.evaluations, "complete": not st.caps, "caps": st.caps})
            total.merge_from(st)
    return total, {"world": "real threads, baton scheduler, every schedule with at most `preemption_bound` pre-emptions (stateless)", "scenarios": per}


def check(tier="quick", seed=0, workers=None, only=None, pid=PID, prefixes=PREFIXES):
    specs = common.filt(seq_specs(tier), only)
    st = engine.explore_many(specs, workers=workers, bound=1, seed=seed, max_violations=400)
    rs = retry_specs(tier)
    n_retry = 0
    for b in sorted({b for b, _ in rs}):
        sub = common.filt([s for bb, s in rs if bb == b], only)
        if sub:
            n_retry += len(sub)
            st.merge_from(engine.explore_many(sub, workers=workers, bound=b, seed=seed, max_violations=400))
    specs = specs + [s for _, s in rs]
    from . import conc
    cst, cinfo = conc.run_for(pid, tier, seed, workers, only)
    from . import rconc
    rst, rinfo = rconc.run_for(pid, tier, seed, workers, only)
    from . import backends
    bst, binfo = backends.run_for(tier, seed, workers, only)
    viols = common.collect(st, prefixes) + common.collect(cst, prefixes) + common.collect(rst, prefixes) + common.collect(bst, prefixes)
    tst, tinfo = thread_part(pid, tier, seed, workers, only)
    viols += common.collect(tst, prefixes)
    # module-level request() / stream(), pools and connections as context managers, unsupported schemes
    from . import apiuse
    n_api, av = apiuse.run_all(prefixes) if not only else (0, [])
    viols += av
    pinfo = {}
    if pid == "C06" and not only:
        # malformed / truncated peer input of every protocol stage: the stream must still be closed by pool.close() at the latest
        from . import c15
        pv, pinfo = c15.peer_input_for_c06(tier, workers)
        viols += pv
    total = engine.Stats(bound=1)
    total.merge_from(st)
    total.merge_from(cst)
    total.merge_from(rst)
    total.merge_from(bst)
    total.merge_from(tst)
    total.samples = st.samples[:3] + cst.samples[:4]
    cov = evidence.stats_coverage(
        total,
        rule=("sequential part: for every connection type x variant x method x fresh/warm x consumption, every network operation index k "
              "x every fault kind applicable to it (deviation bound 1 = one fault per execution, complete), plus retry histories "
              "(retries=N, N+1 faults: every way of failing N attempts at the TCP/TLS stage and then failing anywhere in the next); concurrent part: see "
              "'concurrent' key; non-trivial = outcome class (victim result, pool repr, probe result, fault@op) of an execution with an injected fault or a cancellation"),
        extra={"sequential": {"scenarios": len(specs), "executions": st.evaluations, "states": st.states},
               "concurrent": cinfo, "trio_world": rinfo, "real_backends": binfo, "sync_pool_under_threads": tinfo, "api_use_cases": n_api, "peer_input_corpus": pinfo, "other_oracles_seen": common.foreign(st, prefixes)})
    return {"level": "fault_enumeration", "coverage": cov, "violations": viols,
            "assumptions": ["faults are the documented backend exceptions; a failed write delivers none of its bytes; a hard read/write error means the peer is gone",
                            "start_tls closes the transport when it fails with an Exception, as all three real backends do; not on cancellation"]}


def replay_case(case):
    from . import apiuse
    return apiuse.replay_case(case, PREFIXES)
