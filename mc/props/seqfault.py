"""Shared sequential-world harness: one caller, every connection type, one injected
fault at every network operation (every documented kind), then the C05 / C06 /
C14 / C15 oracles.  Used by C05, C06, C14, C15 (fault part) and by C18's lock-step
differential exploration (same choice tree on the sync and the async classes)."""
from __future__ import annotations

import httpcore

from .. import scen
from ..engine import Execution, Violation
from ..seqworld import SeqWorld, exc_class, documented_exception
from ..simnet import core as sim

FAULT_TO_EXC = {
    "ConnectError": httpcore.ConnectError, "ConnectTimeout": httpcore.ConnectTimeout,
    "ReadError": httpcore.ReadError, "ReadTimeout": httpcore.ReadTimeout,
    "WriteError": httpcore.WriteError, "WriteTimeout": httpcore.WriteTimeout,
}


def owned_transports(pool):
    """Transports reachable from the pool's connection list (through protocol connections,
    TLS layers share the transport, upgrade wrappers)."""
    owned = set()
    seen = set()

    def walk(o, depth=0):
        if o is None or id(o) in seen or depth > 6:
            return
        seen.add(id(o))
        tr = getattr(o, "_tr", None)
        if isinstance(tr, sim.Transport):
            owned.add(tr.id)
        for attr in ("_connection", "_network_stream", "_stream"):
            walk(getattr(o, attr, None), depth + 1)

    for c in pool.connections:
        walk(c)
    return owned


def conn_stuck(c) -> str | None:
    """A pooled connection that can neither serve a request, expire, nor be evicted."""
    try:
        if c.is_closed() or c.is_idle() or c.has_expired():
            return None
    except Exception as e:  # pragma: no cover
        return f"predicate raised {type(e).__name__}"
    return c.info()


class SeqFaultHarness:
    horizon = 3000

    def __init__(self, ct, variant, method="GET", warm=False, consume="request", faults=1, retries=0, max_connections=2,
                 fault_set="all", early=False, body="bytes"):
        self.early = early          # the server answers as soon as it has the request head (early response)
        self.body = body            # "bytes" (Content-Length) | "iter" (chunked upload in three chunks)
        self.ct = ct
        self.variant = variant
        self.method = method
        self.warm = warm
        self.consume = consume
        self.faults = faults
        self.retries = retries
        self.max_connections = max_connections
        self.fault_set = fault_set

    # the caller programs, written once per variant -------------------------------------------------
    def _sync_prog(self, pool, w, log):
        ct = self.ct
        if self.warm:
            r = pool.request("GET", scen.url_for(ct, token="warm"))
            log["warm"] = (r.status, r.content)
        w.env.faults = self.faults
        try:
            body = b"payload" if self.method == "POST" else None
            if body is not None and self.body == "iter":
                body = iter([b"pay", b"lo", b"ad"])
            if self.consume == "request":
                r = pool.request(self.method, scen.url_for(ct, token="victim"), content=body)
                log["victim"] = ("ok", r.status, r.content)
            else:
                with pool.stream(self.method, scen.url_for(ct, token="victim"), content=body) as r:
                    it = r.iter_stream()
                    first = next(it, None)
                    log["victim"] = ("ok-partial", r.status, first)
        except Exception as e:
            log["victim"] = ("exc", e)
        finally:
            w.env.faults = 0
        log["after"] = scen.pool_summary(pool)
        log["stuck"] = [s for s in (conn_stuck(c) for c in pool.connections) if s]
        log["owned_after"] = owned_transports(pool)
        log["open_after"] = {t.id for t in w.net.open_transports()}
        # a following request to the SAME origin must get its own answer (the victim's connection is either clean or gone)
        log["phase"] = "followup"
        try:
            r = pool.request("GET", scen.url_for(ct, token="after"), extensions={"timeout": {"pool": 0}})
            log["followup"] = ("ok", r.status, r.content)
        except Exception as e:
            log["followup"] = ("exc", e)
        # behavioural probe: max_connections fresh requests to NEW origins held open at the same time
        held = []
        probe = []
        try:
            for i in range(self.max_connections):
                cm = pool.stream("GET", scen.url_for(ct, host=f"p{i}.example", token=f"probe{i}"),
                                 extensions={"timeout": {"pool": 0}})
                try:
                    r = cm.__enter__()
                    held.append(cm)
                    probe.append(("ok", r.status))
                except Exception as e:
                    probe.append(("exc", e))
        finally:
            for cm in held:
                cm.__exit__(None, None, None)
        log["probe"] = probe
        pool.close()
        log["closed"] = scen.pool_summary(pool)

    async def _async_prog(self, pool, w, log):
        ct = self.ct
        if self.warm:
            r = await pool.request("GET", scen.url_for(ct, token="warm"))
            log["warm"] = (r.status, r.content)
        w.env.faults = self.faults
        try:
            body = b"payload" if self.method == "POST" else None
            if body is not None and self.body == "iter":
                async def agen():
                    for c_ in (b"pay", b"lo", b"ad"):
                        yield c_
                body = agen()
            if self.consume == "request":
                r = await pool.request(self.method, scen.url_for(ct, token="victim"), content=body)
                log["victim"] = ("ok", r.status, r.content)
            else:
                async with pool.stream(self.method, scen.url_for(ct, token="victim"), content=body) as r:
                    it = r.aiter_stream()
                    first = None
                    async for chunk in it:
                        first = chunk
                        break
                    log["victim"] = ("ok-partial", r.status, first)
        except Exception as e:
            log["victim"] = ("exc", e)
        finally:
            w.env.faults = 0
        log["after"] = scen.pool_summary(pool)
        log["stuck"] = [s for s in (conn_stuck(c) for c in pool.connections) if s]
        log["owned_after"] = owned_transports(pool)
        log["open_after"] = {t.id for t in w.net.open_transports()}
        log["phase"] = "followup"
        try:
            r = await pool.request("GET", scen.url_for(ct, token="after"), extensions={"timeout": {"pool": 0}})
            log["followup"] = ("ok", r.status, r.content)
        except Exception as e:
            log["followup"] = ("exc", e)
        held = []
        probe = []
        try:
            for i in range(self.max_connections):
                cm = pool.stream("GET", scen.url_for(ct, host=f"p{i}.example", token=f"probe{i}"),
                                 extensions={"timeout": {"pool": 0}})
                try:
                    r = await cm.__aenter__()
                    held.append(cm)
                    probe.append(("ok", r.status))
                except Exception as e:
                    probe.append(("exc", e))
        finally:
            for cm in held:
                await cm.__aexit__(None, None, None)
        log["probe"] = probe
        await pool.aclose()
        log["closed"] = scen.pool_summary(pool)

    # ------------------------------------------------------------------------------------------------
    def run(self, chooser, world_hook=None) -> Execution:
        ct = self.ct
        topo = scen.Topology(scen.CONN_TYPES[ct], respond_at="head" if self.early else "complete")
        log: dict = {}
        kinds = None
        if self.fault_set == "one":
            kinds = {"connect": ["ConnectError"], "start_tls": ["ConnectError"], "read": ["ReadError"], "write": ["WriteError", "WriteTimeout"]}
        w = SeqWorld(chooser, topo.router, variant=self.variant, merge_roots=[log], faults=0, fault_kinds=kinds)
        pool = scen.make_pool(ct, w.backend, self.variant, max_connections=self.max_connections, retries=self.retries)
        w.roots.append(pool)
        if self.variant == "sync":
            res = w.run(sync_fn=lambda: self._sync_prog(pool, w, log))
        else:
            res = w.run(async_fn=lambda: self._async_prog(pool, w, log))
        return self.judge(w, topo, pool, log, res)

    def judge(self, w, topo, pool, log, res) -> Execution:
        ex = Execution()
        ex.notes["unmergeable"] = sorted(w.unmergeable)
        inj = w.env.injected
        ex.nontrivial = bool(inj)
        ledger = [op.rec() for op in w.net.ledger]
        ex.trace = ledger
        vic = log.get("victim")
        base_sig = {"harness": "seqfault", "ct": self.ct, "method": self.method, "warm": self.warm, "consume": self.consume}
        if self.early or self.body != "bytes":
            base_sig.update(early=self.early, body=self.body)
        if self.retries:
            base_sig["retries"] = self.retries
        inj_desc = None
        if inj:
            opi, fname = inj[0]
            op = w.net.ledger[opi]
            # position of the faulted op among ops of its kind, counted from the victim's start: stable across refactors of other ops
            inj_desc = f"{fname}@{op.kind}"
            base_sig["fault"] = fname
            base_sig["fault_op"] = op.kind
            base_sig["fault_stage"] = self._stage(w, op)
            if len(inj) > 1:
                op2 = w.net.ledger[inj[-1][0]]
                inj_desc += f"+{inj[-1][1]}@{op2.kind}"
                base_sig["fault2"] = inj[-1][1]
                base_sig["fault2_op"] = op2.kind

        def viol(prop, kind, msg, **extra):
            ex.violations.append(Violation(f"{prop}.{kind}", f"{msg} | ct={self.ct} variant={self.variant} fault={inj_desc} victim={self._vdesc(vic)}",
                                           dict(base_sig, variant_independent=True, kind=kind, **extra)))

        if res[0] != "ok":
            if res[0] == "hang" and log.get("phase") == "followup" and "followup" not in log:
                viol("C01", "followup-hang", f"the request that followed on the same origin never gets an answer (the connection it was given is out of step with the server): {res[1]}")
            elif res[0] == "hang":
                viol("C15", "hang", f"caller hangs: {res[1]}")
            elif res[0] == "exc":
                viol("C05", "program-error", f"post-victim program raised {exc_class(res[1])}: {res[1]}")
            else:
                viol("C07", res[0], "caller did not terminate")
            ex.outcome = f"{res[0]}"
            return ex

        # ---- C15: exception class matches the cause
        if vic[0] == "exc":
            e = vic[1]
            if not documented_exception(e):
                viol("C15", "undocumented-exception", f"{exc_class(e)}: {e}", leaked=exc_class(e))
            elif inj:
                # with a fault budget of two (retry histories) the earlier fault was absorbed - by a connection retry or by
                # h11's suppressed write error - and the LAST one is the cause of what the caller sees
                last = inj[-1][1]
                want = FAULT_TO_EXC[last]
                # a write failure may legitimately surface as the read-side consequence (h11 suppresses WriteError and reads on)
                if not isinstance(e, want) and not (last == "WriteError" and isinstance(e, (httpcore.RemoteProtocolError, httpcore.ReadError))):
                    viol("C15", "wrong-class", f"injected {last} surfaced as {exc_class(e)}: {e}", got=exc_class(e))
            else:
                viol("C15", "spurious-error", f"no fault injected but the call raised {exc_class(e)}: {e}")
        elif inj and vic[0].startswith("ok"):
            # success despite a fault: allowed for connect retries and for a suppressed write error with an early response
            pass
        # ---- C01-style sanity on success
        if vic[0] == "ok" and self.method != "HEAD" and vic[2] != b"<victim>":
            viol("C01", "wrong-body", f"victim got body {vic[2]!r}")
        fu = log.get("followup")
        if fu is not None:
            if fu[0] == "ok" and (fu[1] != 200 or fu[2] != b"<after>"):
                viol("C01", "followup-garbled", f"the request that followed on the same origin received status={fu[1]} body={fu[2]!r} instead of its own answer")
            elif fu[0] == "exc":
                viol("C01", "followup-failed", f"the request that followed on the same origin failed with {exc_class(fu[1])}: {fu[1]}", exc=exc_class(fu[1]))
        # ---- C05
        after = log["after"]
        if after["requests"] != 0 or "Requests: 0 active, 0 queued" not in after["repr"]:
            viol("C05", "request-still-counted", f"pool after the call: {after['repr']}")
        if log["stuck"]:
            viol("C05", "connection-stuck", f"pooled connection neither idle, closed nor expired: {log['stuck']}", state=log["stuck"][0].split(",")[-2].strip() if "," in log["stuck"][0] else log["stuck"][0])
        bad_probe = [p for p in log["probe"] if p[0] != "ok"]
        if bad_probe:
            viol("C05", "capacity-lost", f"probe of {self.max_connections} fresh origins failed: {[exc_class(p[1]) for p in bad_probe]}; pool after the call: {after['conns']}")
        # ---- C06
        orphans = sorted(log["open_after"] - log["owned_after"])
        if orphans:
            trs = [repr(w.net.transports[i]) for i in orphans]
            viol("C06", "orphan-stream", f"open streams not owned by any pooled connection after the call: {trs}")
        still = [repr(t) for t in w.net.open_transports()]
        if still:
            viol("C06", "open-after-pool-close", f"streams still open after pool.close(): {still}")
        # ---- C14
        for tok, sightings in topo.seen_tokens().items():
            if tok and len(sightings) > 1:
                viol("C14", "request-sent-twice", f"token {tok!r} seen {len(sightings)} times: {sightings}")
        # ---- peers' own protocol complaints (C03-ish sanity)
        for c in topo.all_h2_conns():
            if c.violations:
                viol("C03", "h2-peer-complaint", f"{c.violations[:3]}")
        for c in topo.all_h1_conns():
            if c.parser.errors:
                viol("C03", "h1-peer-complaint", f"{c.parser.errors[:3]}")
            if c.reuse_violations:
                viol("C01", "reuse", f"{c.reuse_violations[:3]}")
        ex.outcome = f"{self._vdesc(vic)}|{after['repr'].split('[')[1]}|probe={[p[0] for p in log['probe']]}|inj={inj_desc}"
        ex.notes["log"] = {"victim": self._vdesc(vic), "after": after, "closed": log.get("closed"), "probe": [p[0] for p in log["probe"]]}
        return ex

    def _vdesc(self, vic):
        if vic is None:
            return "none"
        if vic[0] == "exc":
            return "exc:" + exc_class(vic[1])
        return f"{vic[0]}:{vic[1]}"

    def _stage(self, w, op):
        """Coarse stage of the victim exchange at which an op happened (computed from the ledger
        up to that op, so it does not depend on what happened afterwards)."""
        if op.kind.startswith("connect"):
            return "tcp-connect"
        if op.kind == "start_tls":
            return f"tls{op.layer + 1}"
        ctd = scen.CONN_TYPES[self.ct]
        if not ctd["proxy"]:
            return "exchange"
        tr = op.tr
        prior = [o for o in w.net.ledger[: op.i] if o.tr is tr and o.kind == "write" and o.state == "ok"]
        if ctd["proxy"].startswith("socks"):
            http_started = any(o.args["data"][:1] not in (b"\x05", b"\x01") for o in prior)
            if not http_started and not (op.kind == "write" and op.args["data"][:1] not in (b"\x05", b"\x01")):
                return "proxy-negotiation"
            return "exchange"
        if ctd["scheme"] == "https":
            # tunnel: negotiation until the origin TLS layer exists
            need = 1 + (1 if ctd["proxy"] == "https" else 0)
            return "exchange" if op.layer >= need else "proxy-negotiation"
        return "exchange"
