"""C15 — only documented exception types reach the caller.

Bounded-exhaustive enumeration of peer input, sync and async:
 (a) every single-point mutation (truncate / replace by each byte of a 10-byte alphabet /
     delete / duplicate, at every offset) of valid conversations: HTTP/1.1 responses,
     HTTP/2 frame sequences, CONNECT replies, SOCKS5 replies;
 (a2) structured HTTP/2: every frame type x flag set x length x stream id at three
     positions of the conversation, HPACK payload variants, :status variants;
 (b) from scratch: all sequences up to length 3 (quick) / 4 (thorough) over a token
     alphabet per protocol;
 (c) every injected backend exception at every operation (the seqfault exploration).
After the scripted bytes the peer sends EOF, so a call that does not terminate is a hang.
"""
from __future__ import annotations

import itertools
import multiprocessing as mp
import os
import traceback

import hpack
import httpcore

from .. import engine, evidence, scen
from ..engine import Chooser
from ..seqworld import SeqWorld, exc_class, documented_exception
from ..simnet import core as sim
from ..simnet.http1 import ScriptConn, HTTPProxy, Socks5Proxy, H1Server, make_echo_responder, Peer
from ..simnet.h2peer import H2Server, frame, settings_payload, DATA, HEADERS, SETTINGS, RST_STREAM, GOAWAY, WINDOW_UPDATE, PING, CONTINUATION, PRIORITY, PUSH_PROMISE
from . import common

REPL = [0x00, 0x0A, 0x0D, 0x20, 0x3A, 0x30, 0x41, 0x7F, 0x80, 0xFF]

H1_CONVS = {
    "cl": b"HTTP/1.1 200 OK\r\nContent-Length: 3\r\nX-A: b\r\n\r\nabc",
    "chunked": b"HTTP/1.1 200 OK\r\nTransfer-Encoding: chunked\r\n\r\n3\r\nabc\r\n0\r\n\r\n",
    "interim": b"HTTP/1.1 100 Continue\r\n\r\nHTTP/1.1 204 No Content\r\n\r\n",
    "close": b"HTTP/1.0 200 OK\r\n\r\nabc",
}
H1_TOKENS = [b"HTTP/1.1 200 OK\r\n", b"HTTP/1.1 999 X\r\n", b"HTTP/2.0 200 OK\r\n", b"HTTP/1.1 101 S\r\n", b"Content-Length: 3\r\n", b"Content-Length: -1\r\n",
             b"Content-Length: x\r\n", b"Transfer-Encoding: chunked\r\n", b"\r\n", b"abc", b"3\r\nabc\r\n", b"0\r\n\r\n", b"zz\r\n", b": novalue\r\n", b"X: y\r\n", b"\x00"]


def h2_conv(status=b"200", extra_headers=(), body=b"abc"):
    enc = hpack.Encoder()
    hdrs = ([(b":status", status)] if status is not None else []) + [(b"x-a", b"b")] + list(extra_headers)
    block = enc.encode(hdrs)
    return [frame(SETTINGS, 0, 0, settings_payload({3: 100})), frame(SETTINGS, 1, 0), frame(HEADERS, 0x4, 1, block), frame(DATA, 0x1, 1, body)]


def mutations(data: bytes):
    n = len(data)
    for i in range(n):
        yield ("trunc", i, data[:i])
    for i in range(n):
        for b in REPL:
            if data[i] != b:
                yield ("repl", (i, b), data[:i] + bytes([b]) + data[i + 1:])
    for i in range(n):
        yield ("del", i, data[:i] + data[i + 1:])
        yield ("dup", i, data[:i + 1] + data[i:])


class RawH2Server(H2Server):
    """Plays a raw byte script once the first request is complete, then EOF."""

    def __init__(self, script):
        super().__init__(respond="manual", auto_settings=False)
        self.script = script
        self.done = False
        self.close_after = True

    def request_complete(self, conn, s):
        if not self.done:
            self.done = True
            conn.out(self.script)
            if self.close_after:
                conn.tr.shutdown()

    def after_input(self, conn):
        pass


def innermost_site(e):
    tb = traceback.extract_tb(e.__traceback__)
    site = "?"
    for fr in tb:
        if "/httpcore/" in fr.filename:
            site = fr.filename.rsplit("/httpcore/", 1)[1].replace(".py", "") + ":" + fr.name
    return site


def run_script(stage, script: bytes, variant, extra=None):
    """-> (outcome tuple, world).  stage in h1 | h2 | connect | socks"""
    extra = extra or {}
    if stage == "h1":
        peer = ScriptConn(script, eof=True, when="complete")
        router = lambda k, h, p: peer
        ct = "h11"
    elif stage == "h2":
        srv = RawH2Server(script)
        router = lambda k, h, p: srv.new_conn()
        ct = "h2pk"
    elif stage == "connect":
        class RawProxy(Peer):
            def __init__(self):
                self.buf = b""
                self.sent = False

            def on_tls(self, tr, sni, offered):
                return "http/1.1"

            def on_data(self, tr, data):
                self.buf += data
                if not self.sent and b"\r\n\r\n" in self.buf:
                    self.sent = True
                    tr.send(script)
                    tr.shutdown()
        rp = RawProxy()
        router = lambda k, h, p: rp
        ct = "tunnel"
    else:
        class RawSocks(Peer):
            def __init__(self):
                self.step = 0

            def on_data(self, tr, data):
                replies = extra["replies"]
                if not replies:
                    tr.shutdown()
                if self.step < len(replies):
                    tr.send(replies[self.step])
                    self.step += 1
                    if self.step == len(replies):
                        tr.shutdown()
        rs = RawSocks()
        router = lambda k, h, p: rs
        ct = "socks-auth-tls" if extra.get("auth") else "socks"
    w = SeqWorld(Chooser([]), router, variant=variant)
    w.env.fp = None
    pool = scen.make_pool(ct, w.backend, variant)
    url = scen.url_for(ct, token="x")
    if variant == "sync":
        def prog():
            try:
                with pool.stream("GET", url) as r:
                    body = r.read()
                return ("ok", r.status)
            finally:
                try:
                    pool.close()
                except Exception:
                    pass
        res = w.run(sync_fn=prog)
    else:
        async def aprog():
            try:
                async with pool.stream("GET", url) as r:
                    body = await r.aread()
                return ("ok", r.status)
            finally:
                try:
                    await pool.aclose()
                except Exception:
                    pass
        res = w.run(async_fn=aprog)
    return res, w


def judge(stage, what, script, variant, res, out, classes, case, w=None):
    def bad(kind, msg, **sigx):
        out.append({"oracle": "C15." + kind, "message": f"{msg} | stage={stage} input={what} variant={variant} bytes={script[:120]!r}",
                    "signature": dict({"harness": "peerinput", "stage": stage, "kind": kind}, **sigx), "case": case})
    # C06 (collected by C06's check, not by C15's): whatever the peer sent, after pool.close() no stream may be left open
    if w is not None and res[0] in ("ok", "exc"):
        still = [repr(t) for t in w.net.open_transports()]
        if still:
            out.append({"oracle": "C06.open-after-pool-close", "message": f"streams still open after pool.close(): {still}; the call ended with "
                        f"{res[0] if res[0] == 'ok' else exc_class(res[1])} | stage={stage} input={what} variant={variant} bytes={script[:120]!r}",
                        "signature": {"harness": "peerinput", "stage": stage, "kind": "open-after-pool-close"}, "case": case})
    if res[0] == "ok":
        classes.add((stage, "ok"))
        return
    if res[0] in ("hang", "deadlock", "livelock"):
        bad("hang", f"call does not terminate although the peer's input has ended ({res[0]})")
        classes.add((stage, "hang"))
        return
    e = res[1]
    cls = exc_class(e)
    classes.add((stage, cls))
    if not documented_exception(e):
        bad("undocumented-exception", f"{cls}: {str(e)[:160]} raised at {innermost_site(e)}", leaked=cls, site=innermost_site(e))
        return
    if isinstance(e, httpcore.LocalProtocolError):
        bad("wrong-class", f"peer data caused LocalProtocolError ({str(e)[:120]}) at {innermost_site(e)}; the caller's request was valid", got=cls, site=innermost_site(e))
    elif isinstance(e, (httpcore.TimeoutException, httpcore.ConnectError, httpcore.WriteError)) or type(e) is httpcore.ReadError:
        bad("wrong-class", f"peer data caused {cls} ({str(e)[:120]}) although no network failure was injected", got=cls, site=innermost_site(e))
    elif isinstance(e, httpcore.ProxyError) and stage in ("h1", "h2"):
        bad("wrong-class", f"origin data caused ProxyError", got=cls, site=innermost_site(e))


def gen_cases(tier):
    """yield (stage, what, script bytes, extra)"""
    # (a) mutations of valid conversations
    for name, conv in H1_CONVS.items():
        yield ("h1", f"valid:{name}", conv, None)
        for kind, pos, data in mutations(conv):
            yield ("h1", f"{name}:{kind}@{pos}", data, None)
    h2c = b"".join(h2_conv())
    yield ("h2", "valid", h2c, None)
    for kind, pos, data in mutations(h2c):
        yield ("h2", f"conv:{kind}@{pos}", data, None)
    connect_ok = b"HTTP/1.1 200 Connection established\r\n\r\n"
    connect_no = b"HTTP/1.1 407 Proxy Auth\r\nContent-Length: 0\r\n\r\n"
    for name, conv in (("200", connect_ok), ("407", connect_no)):
        for kind, pos, data in mutations(conv):
            yield ("connect", f"{name}:{kind}@{pos}", data, None)
    for auth in (False, True):
        good = [b"\x05\x02", b"\x01\x00", b"\x05\x00\x00\x01\x7f\x00\x00\x01\x04\x38"] if auth else [b"\x05\x00", b"\x05\x00\x00\x01\x7f\x00\x00\x01\x04\x38"]
        for idx in range(len(good)):
            for kind, pos, data in mutations(good[idx]):
                replies = list(good)
                replies[idx] = data
                if data == b"":
                    replies = replies[:idx]      # nothing to send: the proxy just closes
                yield ("socks", f"auth={auth}:reply{idx}:{kind}@{pos}", b"|".join(replies), {"replies": replies[: idx + 1] if True else replies, "auth": auth})
    # (a2) structured HTTP/2
    pre = h2_conv()
    enc = hpack.Encoder()
    flagsets = [0x0, 0x1, 0x4, 0x5, 0x8, 0x20, 0x2D, 0xFF]
    sids = [0, 1, 3, 2, 0x7FFFFFFF]
    for ftype in list(range(0, 11)) + [0x42]:
        for fl in flagsets:
            for sid in sids:
                for payload in (b"", b"\x00" * 4, b"\x00" * 8, b"\x82" + b"\x00" * 4, b"\xff" * 5):
                    if tier == "quick" and fl in (0x2D, 0x20) and payload not in (b"", b"\x00" * 4):
                        continue
                    fr = frame(ftype, fl, sid, payload)
                    for posname, seq in (("before-headers", pre[:2] + [fr] + pre[2:]), ("mid", pre[:3] + [fr] + pre[3:]), ("after-end", pre + [fr])):
                        if tier == "quick" and posname == "after-end" and payload != b"":
                            continue
                        yield ("h2", f"frame(type={ftype},flags={fl:#x},sid={sid},len={len(payload)})@{posname}", b"".join(seq), None)
    for ln in (0, 2, 5, 16385, 0xFFFFFF):
        yield ("h2", f"declared-length={ln}", b"".join(pre[:3]) + frame(DATA, 1, 1, b"abc", length=ln), None)
    for nm, block in (("bad-index", b"\xff\xff\xff\xff\x0f"), ("huge-int", b"\x7f" + b"\xff" * 12), ("bad-huffman", b"\x00\x85\xff\xff\xff\xff\xff\x01a"),
                      ("empty", b""), ("table-resize-late", b"\x82\x3f\xe1\x7f")):
        yield ("h2", f"hpack:{nm}", b"".join(pre[:2]) + frame(HEADERS, 0x4, 1, block) + pre[3], None)
    for st in (None, b"", b"abc", b"99999", b"2 0", b"-1", b"\xff"):
        conv = h2_conv(status=st)
        yield ("h2", f":status={st!r}", b"".join(conv), None)
    for extra_h in ([(b"content-length", b"1")], [(b"content-length", b"x")], [(b"Upper", b"x")], [(b":path", b"/")], [(b"connection", b"close")]):
        yield ("h2", f"headers+{extra_h}", b"".join(h2_conv(extra_headers=extra_h)), None)
    # (b) from scratch
    L = 3 if tier == "quick" else 4
    for n in range(0, L + 1):
        for combo in itertools.product(range(len(H1_TOKENS)), repeat=n):
            if tier == "quick" and n == 3 and combo[0] not in (0, 1, 2, 3, 8, 15):
                continue
            yield ("h1", f"scratch:{combo}", b"".join(H1_TOKENS[i] for i in combo), None)
    h2_tokens = pre + [frame(RST_STREAM, 0, 1, b"\x00\x00\x00\x08"), frame(GOAWAY, 0, 0, b"\x00" * 8), frame(WINDOW_UPDATE, 0, 0, b"\x00\x00\x00\x00"),
                       frame(PING, 0, 0, b"\x00" * 8), frame(CONTINUATION, 0x4, 1, b""), frame(DATA, 0, 1, b"x"), frame(HEADERS, 0x5, 1, enc.encode([(b":status", b"200")]))]
    for n in range(0, L + 1):
        for combo in itertools.product(range(len(h2_tokens)), repeat=n):
            if tier == "quick" and n == 3 and combo[0] not in (0, 2):
                continue
            yield ("h2", f"scratch:{combo}", b"".join(h2_tokens[i] for i in combo), None)


def _job(chunk):
    out, n, classes = [], 0, set()
    for (stage, what, script, extra) in chunk:
        for variant in ("sync", "async"):
            n += 1
            res, w = run_script(stage, script, variant, extra)
            before = len(out)
            judge(stage, what, script, variant, res, out, classes, {"stage": stage, "what": what, "script": script.hex(), "variant": variant,
                                                                    "extra": None if extra is None else {"replies": [r.hex() for r in extra["replies"]], "auth": extra["auth"]}}, w=w)
            del out[before + 2:]
    return n, out, classes


def replay_case(case):
    if "api" in case:
        from . import apiuse
        return apiuse.replay_case(case, ("C15",))
    return [v for v in replay_all(case) if v["oracle"].startswith("C15.")]


def replay_all(case):
    out, classes = [], set()
    extra = None
    if case.get("extra"):
        extra = {"replies": [bytes.fromhex(r) for r in case["extra"]["replies"]], "auth": case["extra"]["auth"]}
    script = bytes.fromhex(case["script"])
    res, w = run_script(case["stage"], script, case["variant"], extra)
    judge(case["stage"], case["what"], script, case["variant"], res, out, classes, case, w=w)
    return out


def peer_input_for_c06(tier, workers=None):
    """The peer-input corpus (every 4th case in the quick tier) judged for C06 only: no stream open after pool.close()."""
    allc = list(gen_cases(tier))
    if tier == "quick":
        allc = allc[::4]
    nw = workers or min(16, os.cpu_count() or 1)
    size = max(1, min(400, len(allc) // (nw * 8)))
    chunks = [allc[i:i + size] for i in range(0, len(allc), size)]
    total, viols = 0, []
    with mp.get_context("fork").Pool(nw) as pool:
        for n, v, cl in pool.imap(_job, chunks):
            total += n
            viols += [x for x in v if x["oracle"].startswith("C06.")]
    return viols, {"peer_input_cases": len(allc), "runs": total}


def check(tier="quick", seed=0, workers=None, only=None):
    allc = list(gen_cases(tier))
    if only:
        allc = [c for c in allc if only in c[0] + ":" + c[1]]
    nw = workers or min(16, os.cpu_count() or 1)
    size = max(1, min(400, len(allc) // (nw * 8)))
    chunks = [allc[i:i + size] for i in range(0, len(allc), size)]
    total, viols, classes = 0, [], set()
    with mp.get_context("fork").Pool(nw) as pool:
        for n, v, cl in pool.imap(_job, chunks):
            total += n
            viols += [x for x in v if x["oracle"].startswith("C15.")]
            classes |= cl
    # (c) injected backend exceptions at every operation of every connection type: the seqfault exploration
    from . import c05
    specs = [] if only else c05.seq_specs(tier)
    st = engine.explore_many(specs, workers=workers, bound=1, seed=seed, max_violations=200) if specs else engine.Stats(bound=1)
    viols += common.collect(st, ("C15",))
    from . import conc
    cst, cinfo = conc.run_for("C15", tier, seed, workers, only) if not only else (engine.Stats(bound=None), {})
    viols += common.collect(cst, ("C15",))
    for v in common.collect(cst, ("C07",)):
        if v["oracle"] == "C07.deadlock":       # "a call never hangs once its input has ended"
            viols.append(dict(v, oracle="C15.hang", message="a caller never returns: " + v["message"]))
    st.evaluations += cst.evaluations
    # (d) the real backends over OS / runtime level fakes: every OS-level operation x every exception of the runtime's alphabet
    from . import backends
    bst, binfo = backends.run_for(tier, seed, workers, None) if not only else (engine.Stats(bound=1), {})
    viols += common.collect(bst, ("C15",))
    from . import apiuse
    viols += apiuse.run_all(("C15",))[1] if not only else []
    st.evaluations += bst.evaluations
    st.nontrivial_outcomes |= bst.nontrivial_outcomes
    by_stage = {}
    for c in allc:
        by_stage[c[0]] = by_stage.get(c[0], 0) + 1
    cov = {"evaluations": total + st.evaluations, "distinct_nontrivial": len(classes) + len(st.nontrivial_outcomes), "exhaustive": True,
           "rule": ("(a) all single-point mutations (truncate/replace x10/delete/duplicate at every offset) of valid HTTP/1.1, HTTP/2, CONNECT and SOCKS5 conversations; "
                    "(a2) frame type x flags x stream id x payload at three positions, declared lengths, HPACK and :status variants; (b) all token sequences up to length %d; "
                    "(c) every fault kind at every operation of every connection type; sync and async; "
                    "(d) the real SyncBackend / AnyIOBackend / TrioBackend over OS-level fakes, every OS / runtime exception at every OS-level operation; distinct class = (stage, outcome exception class)" % (3 if tier == "quick" else 4)),
           "samples": [{"stage": c[0], "input": c[1], "bytes": c[2][:60].hex()} for c in allc[:: max(1, len(allc) // 6)][:6]],
           "inputs_by_stage": by_stage, "outcome_classes": sorted(map(str, classes))[:60], "fault_enumeration_executions": st.evaluations, "concurrent_h2_peer_events": cinfo, "real_backends": binfo}
    return {"level": "exploration", "coverage": cov, "violations": viols,
            "assumptions": ["(d): the OS / runtime failure alphabets are those listed in mc/simnet/fakeos.py (read off the socket / anyio / trio documentation and, for ssl.SSLError on anyio TLS streams, off anyio/streams/tls.py)",
                            "after the scripted bytes the peer closes; a mutation that leaves the conversation valid (or merely truncates a close-delimited body) may succeed",
                            "class must match the cause: peer data => RemoteProtocolError (ProxyError at proxy/SOCKS stages), never LocalProtocolError / timeouts / connect or write errors"]}
