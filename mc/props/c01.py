"""C01 — concurrent scenarios on the virtual asyncio loop (see mc/props/conc.py), oracle prefix C01."""
from __future__ import annotations

from .. import engine, evidence
from . import common, conc

PID = "C01"


def check(tier="quick", seed=0, workers=None, only=None):
    st, info = conc.run_for(PID, tier, seed, workers, only)
    extra_st, extra_info = extra(tier, seed, workers, only)
    total = engine.Stats(bound=None)
    total.merge_from(st)
    total.samples = st.samples[:5]
    if extra_st is not None:
        total.merge_from(extra_st)
        total.samples += extra_st.samples[:3]
    viols = common.collect(total, (PID,))
    cov = evidence.stats_coverage(total, rule=RULE, extra={"concurrent": info, "other": extra_info,
                                                           "other_oracles_seen": common.foreign(total, (PID,))})
    cov["exhaustive"] = bool(total.exhaustive)
    return {"level": "model_checking", "coverage": cov, "violations": viols, "assumptions": ASSUMPTIONS}


def extra(tier, seed, workers, only):
    return None, {}


RULE = ("explicit-state search over all orders of external events (arrivals, I/O completions incl. early ones, releases, timers; "
        "plus <=1 fault or <=1 cancellation where the scenario has that budget) for each scenario of 2-4 callers on one real "
        "AsyncConnectionPool; states merged on the canonical heap fingerprint (tasks' await chains with live locals, anyio scopes, "
        "loop queues, pool, connections, h11/h2 state, simulated network and peers); non-trivial = end-state outcome class of an "
        "execution with at least three distinct kinds of events")
ASSUMPTIONS = ["asyncio FIFO ready queue is kept; nondeterminism = when external events arrive relative to loop iterations",
               "peers answer every request with exactly one well-framed response (token echo)",
               "simulated backend follows the NetworkBackend contract as the three real backends do (DESIGN.md 2.4)"]


def extra(tier, seed, workers, only):
    """Sequential histories: a request that failed at any I/O step (every fault kind, also with an early response and a
    chunked upload), followed by another request to the same origin, which must get its own answer on a clean or new connection."""
    if only:
        return None, {}
    from .. import scen
    from ..engine import make_spec
    specs = []
    cts = ["h11", "h11tls", "fwd", "tunnel", "socks", "h2pk", "h2alpn"] if tier == "quick" else [c for c in scen.CONN_TYPES]
    for ct in cts:
        for variant in ("sync", "async"):
            for early in (False, True):
                for body in ("bytes", "iter"):
                    if scen.CONN_TYPES[ct]["proto"] == "h2" and early:
                        continue
                    for warm in (False, True):
                        specs.append(make_spec("mc.props.seqfault", "SeqFaultHarness", ct=ct, variant=variant, method="POST", warm=warm,
                                               early=early, body=body))
    st = engine.explore_many(specs, workers=workers, bound=1, seed=seed, max_violations=100)
    # the same kind of history through the real backends (OS-level failures): a streamed upload answered early, then a follow-up
    from . import backends
    bst, binfo = backends.run_for(tier, seed, workers, None, purpose="early")
    st.merge_from(bst)
    st.merge_from(engine.explore_many([make_spec("mc.props.c01", "SharedURLHarness", variant=v, ct=ct) for v in ("sync", "async") for ct in ("h11", "h2pk")],
                                      workers=workers, bound=None, seed=seed, max_violations=20))
    st.merge_from(engine.explore_many([make_spec("mc.props.c01", "PortNeighbourHarness", variant=v, proto=pr) for v in ("sync", "async") for pr in ("h1", "h2")],
                                      workers=workers, bound=None, seed=seed, max_violations=20))
    return st, {"sequential_fault_histories": len(specs), "executions": st.evaluations, "real_backends": binfo}


class PortNeighbourHarness:
    """Requests to origins that differ in the port only (and then in the host only), one after another on one pool: every request is
    received - and therefore answered - by the server it was addressed to, never by a neighbour's idle connection."""
    horizon = 400

    def __init__(self, variant, proto="h1"):
        self.variant, self.proto = variant, proto

    def run(self, chooser):
        import httpcore
        from ..engine import Execution, Violation
        from ..seqworld import SeqWorld, exc_class
        from ..simnet.http1 import H1Server, make_echo_responder, token_of
        from ..simnet.h2peer import H2Server
        servers = {}

        def router(kind, host, port):
            srv = servers.get((host, port))
            if srv is None:
                srv = servers[(host, port)] = H1Server(make_echo_responder("cl")) if self.proto == "h1" else H2Server()
            return srv.new_conn()
        w = SeqWorld(chooser, router, variant=self.variant)
        w.env.fp = None
        cls = httpcore.ConnectionPool if self.variant == "sync" else httpcore.AsyncConnectionPool
        pool = cls(network_backend=w.backend, http1=self.proto == "h1", http2=self.proto == "h2", max_connections=10)
        plan = [("a.example", 8001), ("a.example", 8002), ("a.example", 8001), ("b.example", 8001), ("a.example", 80), ("a.example", 8002)]
        got = []
        if self.variant == "sync":
            def prog():
                for i, (h, p) in enumerate(plan):
                    r = pool.request("GET", f"http://{h}:{p}/t/n{i}")
                    got.append((r.status, r.content))
                pool.close()
            res = w.run(sync_fn=prog)
        else:
            async def aprog():
                for i, (h, p) in enumerate(plan):
                    r = await pool.request("GET", f"http://{h}:{p}/t/n{i}")
                    got.append((r.status, r.content))
                await pool.aclose()
            res = w.run(async_fn=aprog)
        ex = Execution(outcome=str(got), nontrivial=True)
        seen = {}
        for key, srv in servers.items():
            for c in srv.conns:
                if self.proto == "h1":
                    for q in c.parser.requests:
                        seen.setdefault(token_of(q), []).append(key)
                else:
                    for sid in c.order:
                        seen.setdefault(c.streams[sid].token, []).append(key)
        want = [(200, f"<n{i}>".encode()) for i in range(len(plan))]
        wrong = [(f"n{i}", plan[i], seen.get(f"n{i}".encode())) for i in range(len(plan)) if seen.get(f"n{i}".encode()) != [plan[i]]]
        if res[0] != "ok" or got != want or wrong:
            ex.violations.append(Violation("C01.answered-by-neighbour", f"requests to origins differing in port / host only: results {got} ({res[0]}"
                                           f"{': ' + exc_class(res[1]) if res[0] == 'exc' else ''}); received by another server than the one addressed "
                                           f"(token, addressed, received by): {wrong} | proto={self.proto} variant={self.variant}",
                                           {"harness": "port-neighbours", "kind": "answered-by-neighbour", "proto": self.proto}))
        return ex


class SharedURLHarness:
    """Three requests built from ONE httpcore.URL object, the middle one with the `target` extension: each gets the answer to its own request."""
    horizon = 200

    def __init__(self, variant, ct="h11"):
        self.variant, self.ct = variant, ct

    def run(self, chooser):
        import httpcore
        from .. import scen
        from ..engine import Execution, Violation
        from ..seqworld import SeqWorld, exc_class
        topo = scen.Topology(scen.CONN_TYPES[self.ct])
        w = SeqWorld(chooser, topo.router, variant=self.variant)
        w.env.fp = None
        pool = scen.make_pool(self.ct, w.backend, self.variant)
        url = httpcore.URL(scen.url_for(self.ct, token="mine"))
        plan = [({}, b"<mine>"), ({"target": b"/t/other"}, b"<other>"), ({}, b"<mine>")]
        got = []
        if self.variant == "sync":
            def prog():
                for ext, _ in plan:
                    r = pool.request("GET", url, extensions=dict(ext))
                    got.append((r.status, r.content))
                pool.close()
            res = w.run(sync_fn=prog)
        else:
            async def aprog():
                for ext, _ in plan:
                    r = await pool.request("GET", url, extensions=dict(ext))
                    got.append((r.status, r.content))
                await pool.aclose()
            res = w.run(async_fn=aprog)
        ex = Execution(outcome=str(got), nontrivial=True)
        want = [(200, b) for _, b in plan]
        if res[0] != "ok" or got != want:
            ex.violations.append(Violation("C01.shared-url-object", f"three requests from one URL object (the second with target=/t/other) were answered {got} ({res[0]}"
                                           f"{': ' + exc_class(res[1]) if res[0] == 'exc' else ''}), expected {want} | ct={self.ct} variant={self.variant}",
                                           {"harness": "shared-url", "kind": "shared-url-object", "ct": self.ct}))
        return ex
