"""HTTP/2 part of C02: every segmentation (incl. cuts inside the 9-byte frame header) and every
truncation point of frame scripts: HEADERS(+CONTINUATION) / DATA x k / END_STREAM on DATA, on
HEADERS, or on trailers; padded frames; PING / WINDOW_UPDATE interleaved."""
from __future__ import annotations

import hpack
import httpcore

from ..engine import Execution, Violation, make_spec
from ..seqworld import SeqWorld, exc_class
from ..simnet.h2peer import frame, settings_payload, DATA, HEADERS, SETTINGS, PING, WINDOW_UPDATE, CONTINUATION
from .c15 import RawH2Server

MOD = "mc.props.c02_h2"
HDRS = [(b":status", b"200"), (b"x-a", b"1"), (b"x-a", b"2"), (b"set-cookie", b"k=v")]


def scripts():
    out = {}
    pre = [frame(SETTINGS, 0, 0, settings_payload({3: 100})), frame(SETTINGS, 1, 0)]

    def enc(h):
        return hpack.Encoder().encode(h)
    b = enc(HDRS)
    out["simple"] = (pre + [frame(HEADERS, 0x4, 1, b), frame(DATA, 0x1, 1, b"abc")], 200, HDRS[1:], b"abc")
    out["continuation-3data"] = (pre + [frame(HEADERS, 0x0, 1, b[:5]), frame(CONTINUATION, 0x4, 1, b[5:]), frame(DATA, 0, 1, b"a"), frame(DATA, 0, 1, b"bc"),
                                        frame(DATA, 0x1, 1, b"defgh")], 200, HDRS[1:], b"abcdefgh")
    b204 = enc([(b":status", b"204"), (b"x-b", b"")])
    out["end-on-headers"] = (pre + [frame(HEADERS, 0x5, 1, b204)], 204, [(b"x-b", b"")], b"")
    tr = enc([(b"x-trailer", b"t")])
    out["trailers"] = (pre + [frame(HEADERS, 0x4, 1, b), frame(DATA, 0, 1, b"abc"), frame(HEADERS, 0x5, 1, tr)], 200, HDRS[1:], b"abc")
    out["padded-empty-end"] = (pre + [frame(HEADERS, 0x4, 1, b), frame(DATA, 0x8, 1, b"\x02" + b"ab" + b"\x00\x00"), frame(DATA, 0x1, 1, b"")], 200, HDRS[1:], b"ab")
    out["interleaved-control"] = (pre + [frame(PING, 0, 0, b"\x00" * 8), frame(HEADERS, 0x4, 1, b), frame(WINDOW_UPDATE, 0, 0, b"\x00\x00\x00\x05"),
                                         frame(DATA, 0, 1, b"ab"), frame(PING, 0x1, 0, b"\x01" * 8), frame(DATA, 0x1, 1, b"c")], 200, HDRS[1:], b"abc")
    # the server follows the complete response with a graceful GOAWAY naming this stream (and other control frames): whether
    # the GOAWAY shares a read with the final frame or not, the response is complete and is delivered
    goaway = frame(7, 0, 0, (1).to_bytes(4, "big") + (0).to_bytes(4, "big"))
    out["goaway-after"] = (pre + [frame(HEADERS, 0x4, 1, b), frame(DATA, 0x1, 1, b"abc"), goaway], 200, HDRS[1:], b"abc")
    out["goaway-after-2data"] = (pre + [frame(HEADERS, 0x4, 1, b), frame(DATA, 0, 1, b"ab"), frame(DATA, 0x1, 1, b"c"), frame(PING, 0, 0, b"\x02" * 8), goaway],
                                 200, HDRS[1:], b"abc")
    out["goaway-after-end-on-headers"] = (pre + [frame(HEADERS, 0x5, 1, b204), goaway], 204, [(b"x-b", b"")], b"")
    return out


class Seg2Harness:
    horizon = 8000

    def __init__(self, script, variant, consume, seg_cost=0):
        self.name = script
        frames, self.status, self.headers, self.body = scripts()[script]
        self.data = b"".join(frames)
        self.variant = variant
        self.consume = consume
        self.seg_cost = seg_cost

    def run(self, chooser) -> Execution:
        srv = RawH2Server(self.data)
        srv.close_after = False
        collected: list = []
        w = SeqWorld(chooser, lambda k, h, p: srv.new_conn(), variant=self.variant, merge_roots=[collected], segment=True, eof_anywhere=True,
                     faults=0, seg_cost=self.seg_cost)
        cls = httpcore.ConnectionPool if self.variant == "sync" else httpcore.AsyncConnectionPool
        pool = cls(network_backend=w.backend, http1=False, http2=True)
        w.roots.append(pool)
        url = "http://a.example/t/x"
        got = {}
        if self.variant == "sync":
            def prog():
                if self.consume == "request":
                    r = pool.request("GET", url)
                    got.update(status=r.status, headers=r.headers, body=r.content)
                else:
                    with pool.stream("GET", url) as r:
                        got.update(status=r.status, headers=r.headers)
                        for chunk in r.iter_stream():
                            collected.append(chunk)
                    got["body"] = b"".join(collected)
            res = w.run(sync_fn=prog)
        else:
            async def aprog():
                if self.consume == "request":
                    r = await pool.request("GET", url)
                    got.update(status=r.status, headers=r.headers, body=r.content)
                else:
                    async with pool.stream("GET", url) as r:
                        got.update(status=r.status, headers=r.headers)
                        async for chunk in r.aiter_stream():
                            collected.append(chunk)
                    got["body"] = b"".join(collected)
            res = w.run(async_fn=aprog)
        ex = Execution()
        ex.notes["unmergeable"] = sorted(w.unmergeable)
        died = [i for i in w.env.injected if i[1] == "die"]
        delivered = sum(len(op.result) for op in w.net.ledger if op.kind == "read" and isinstance(op.result, bytes))
        nreads = sum(1 for op in w.net.ledger if op.kind == "read")
        ex.nontrivial = nreads > 1 or bool(died)
        ex.trace = [op.rec() for op in w.net.ledger if op.kind in ("read", "close")]
        sig = {"harness": "seg2", "script": self.name, "variant": self.variant, "consume": self.consume}

        def viol(kind, msg):
            ex.violations.append(Violation("C02." + kind, f"{msg} | h2 script={self.name} delivered={delivered}/{len(self.data)} reads={nreads} died={bool(died)} variant={self.variant}", dict(sig, kind=kind)))
        st = res[0]
        if st == "hang":
            viol("read-past-end", "client kept reading after the complete response (peer still open)")
            ex.outcome = "hang"
            return ex
        if st in ("deadlock", "livelock"):
            viol(st, "caller did not terminate")
            ex.outcome = st
            return ex
        if st == "ok":
            if died and delivered < len(self.data) and not self._complete_at(delivered):
                viol("silent-truncation", f"peer died after {delivered} bytes but the call returned normally: {got.get('status')} {got.get('body')!r}")
                ex.outcome = "ok-after-truncation"
                return ex
            if got.get("status") != self.status:
                viol("status", f"status {got.get('status')}")
            if [tuple(h) for h in got.get("headers", [])] != list(self.headers):
                viol("headers", f"headers {got.get('headers')} expected {self.headers}")
            if got.get("body") != self.body:
                viol("body", f"body {got.get('body')!r} expected {self.body!r}")
            ex.outcome = f"ok:trunc={bool(died)}"
            return ex
        e = res[1]
        if not died:
            viol("spurious-error", f"well-formed frames fully delivered in {nreads} reads raised {exc_class(e)}: {e}")
        ex.outcome = f"exc:{exc_class(e)}:trunc={bool(died)}"
        return ex

    def _complete_at(self, delivered):
        """The response is complete once the frame carrying END_STREAM has been delivered (trailing control frames do not matter)."""
        frames = scripts()[self.name][0]
        off = 0
        for f in frames:
            off += len(f)
            if f[3] in (DATA, HEADERS) and f[4] & 0x1 and int.from_bytes(f[5:9], "big") == 1:
                return delivered >= off
        return False


def specs(tier):
    out = []
    for name in scripts():
        for variant in ("sync", "async"):
            for consume in ("request", "stream"):
                if tier == "quick" and (variant, consume) in (("sync", "stream"), ("async", "request")) and name not in ("simple", "trailers", "goaway-after"):
                    continue
                out.append(make_spec(MOD, "Seg2Harness", script=name, variant=variant, consume=consume))
    return out
