def specs(tier):
    return []
