"""C08 — the synchronous pool is thread-safe.

W-T: pre-emption-bounded exhaustive search (CHESS) over real threads sharing one real
ConnectionPool, pre-emptible at every source line of the pool / connection / protocol
code, at every lock / event / semaphore operation and at every simulated network
operation.  Oracles: token echo, connection-limit monitor, deadlock detector, and
'no collateral failure' (against an always-answering server every request returns its own 200)."""
from __future__ import annotations

import json
import multiprocessing as mp
import os

import httpcore

from .. import engine, evidence, scen
from ..engine import Execution, Violation, make_spec
from ..seqworld import exc_class
from ..tworld import TWorld
from . import common
from .conc import reachable_transports

MOD = "mc.props.c08"
POOL_ONLY = ("_sync/connection_pool.py",)
TRACE_FILES = ("_sync/connection_pool.py", "_sync/connection.py", "_sync/http11.py", "_sync/http2.py", "_sync/http_proxy.py", "httpcore/_synchronization.py")


class ThreadHarness:
    """threads: list of "kind:origin[:opt]"  kind in req | hold | early | close-pool ; opt 'w' = run before the threads start (warm-up)"""
    horizon = 200000

    def __init__(self, ct, threads, max_connections=1, max_keepalive=None, granularity="line", framing="cl", server_drop=None, keepalive_expiry=None,
                 prefix="C08"):
        self.prefix = prefix            # C04 runs the same harness for its own oracle (connection limit under threads)
        self.keepalive_expiry = keepalive_expiry
        self.ct = ct
        self.threads = threads
        self.mc = max_connections
        self.mk = max_keepalive
        self.granularity = granularity
        self.framing = framing
        self.server_drop = server_drop      # origin whose idle connection the server closes after the warm-up

    def run(self, chooser) -> Execution:
        ct = self.ct
        topo = scen.Topology(scen.CONN_TYPES[ct], framing=self.framing)
        # "pool-line": line pre-emption inside connection_pool.py only (few enough points for pre-emption bound 2)
        # "waiter-line": line pre-emption only inside the PoolRequest methods (assign / clear / wait), where a lost
        # wake-up between a waiter's check and its wait lives; few enough points for pre-emption bound 3
        gran = self.granularity
        w = TWorld(chooser, topo.router, granularity="line" if gran in ("pool-line", "waiter-line") else gran,
                   trace_files=POOL_ONLY if gran in ("pool-line", "waiter-line") else TRACE_FILES,
                   trace_quals=("PoolRequest.",) if gran == "waiter-line" else None)
        pool = scen.make_pool(ct, w.backend, "sync", max_connections=self.mc, max_keepalive_connections=self.mk,
                              **({"keepalive_expiry": self.keepalive_expiry} if self.keepalive_expiry is not None else {}))
        # what state a connection was in when the pool took it out of its list (root-cause fact for collateral failures)
        removed_as: dict = {}

        class _Rec(list):
            def remove(self_, c):
                try:
                    info = c.info()
                    state = next((p_.strip() for p_ in info.split(",") if p_.strip() in ("NEW", "ACTIVE", "IDLE", "CLOSED", "CONNECTING")), info)
                except Exception:       # noqa
                    state = "?"
                for t_ in reachable_transports(c):
                    removed_as.setdefault(t_, state)
                list.remove(self_, c)
        if type(pool._connections) is list:
            pool._connections = _Rec(pool._connections)
        N = self.mc
        mon = {"max_list": 0, "max_open": 0}
        ever = []

        def monitor(world, label):
            # judged outside the pool lock only (inside it the list is legitimately in flux)
            lk = pool._optional_thread_lock._lock
            conns = list(pool._connections)
            # membership is recorded at every point (a connection may enter and leave the list within one critical section of
            # another thread, while its owner already uses it); the limit itself is judged outside the pool lock only
            for c in conns:
                if not any(c is e for e in ever):
                    ever.append(c)
            if lk.owner is not None:
                return
            if len(conns) > N and "list" not in mon:
                mon["list"] = f"pool holds {len(conns)} connections > max_connections={N} at {label}: {conns}"
            evicted = set()
            for e in ever:
                if not any(e is c for c in conns):
                    evicted |= reachable_transports(e)
            open_tr = [t for t in world.net.open_transports() if t.id not in evicted]
            mon["max_open"] = max(mon["max_open"], len(open_tr))
            if len(open_tr) > N and "open" not in mon:
                mon["open"] = f"{len(open_tr)} open streams > max_connections={N} at {label}: {open_tr}; pool={conns}"
        w.monitors.append(monitor)

        plan = []
        warm = []
        for i, ts in enumerate(self.threads):
            parts = ts.split(":")
            kind, origin, opts = parts[0], parts[1] if len(parts) > 1 else "a", parts[2:]
            tok = f"k{i}"
            url = scen.url_for(ct, host=f"{origin}.example", token=tok) if kind != "tick" else None

            def mk(kind=kind, url=url, tok=tok, origin_=origin):
                def prog():
                    if kind in ("req", "fail"):
                        # "fail": the origin refuses the TCP connection (ConnectError is the expected result)
                        r = pool.request("GET", url)
                        return (r.status, r.content)
                    if kind == "hold":
                        with pool.stream("GET", url) as r:
                            body = r.read()
                        return (r.status, body)
                    if kind == "early":
                        with pool.stream("GET", url) as r:
                            pass
                        return (r.status, None)
                    if kind == "close-pool":
                        pool.close()
                        return (200, None)
                    if kind == "tick":
                        w.env.time += float(origin_)      # time passes (another thread's scheduling decides when)
                        return (200, None)
                    raise ValueError(kind)
                return prog
            if kind == "fail":
                # "fail:x" refused at once; "fail:x:g1" refused once one other thread is queued in the pool (a slow connect failure)
                # "fail:x:t6": refused once the virtual clock has reached 6 s (a "tick" thread moves it)
                w.env.refuse[f"{origin}.example"] = next((int(o[1:]) for o in opts if o.startswith("g")), None) or next((float(o[1:]) for o in opts if o.startswith("t")), 0)
            if kind == "held":
                warm.append((f"t{i}", kind, f"{tok}@{origin}", None))
            elif "w" in opts:
                warm.append((f"t{i}", kind, tok, mk()))
            else:
                plan.append((f"t{i}", kind, tok))
                w.add_thread(f"t{i}", mk())
        ex = Execution()
        sig = {"harness": "threads", "ct": ct}
        desc = f"ct={ct} threads={self.threads} N={self.mc} keepalive={self.mk} granularity={self.granularity}"

        own_kinds = {"C04": ("limit-list", "limit-open"), "C06": ("stream-left-open",), "C05": ("request-still-counted",)}.get(self.prefix)

        def viol(kind, msg, **x):
            if own_kinds is not None and kind not in own_kinds:
                return          # run for another property's oracle: only that oracle speaks (the rest is C08's business)
            ex.violations.append(Violation(self.prefix + "." + kind, f"{msg} | {desc} preempted_in={w.preempted_in} switches={w.switch_log[-12:]}",
                                           dict(sig, kind=kind, **x)))
        held_open = []
        for name, kind, tok, fn in warm:
            if kind == "held":
                # a response opened before the threads start and kept open while they run (its connection is ACTIVE throughout)
                try:
                    n0 = len(w.net.ledger)
                    cm = pool.stream("GET", scen.url_for(ct, host=f"{tok.split('@')[1]}.example", token=tok.split("@")[0]))
                    r_ = cm.__enter__()
                    trs_ = {o.tr.id for o in w.net.ledger[n0:] if o.kind == "write" and o.tr is not None}
                    held_open.append((name, tok.split("@")[0], cm, r_, trs_))
                except Exception as e:
                    viol("warm-up", f"held response {name} could not be opened: {exc_class(e)}: {e}")
                continue
            try:
                r = fn()
                if r[0] != 200 or (r[1] is not None and r[1] != b"<" + tok.encode() + b">"):
                    viol("warm-up", f"warm-up {name} got {r}")
            except Exception as e:
                viol("warm-up", f"warm-up {name} raised {exc_class(e)}: {e}")
        if self.server_drop:
            drops = [self.server_drop] if isinstance(self.server_drop, str) else list(self.server_drop)
            for t in w.net.transports:
                if any(t.host.startswith(d + ".") for d in drops) and not t.closed:
                    t.shutdown()
        w.run()
        results = {t.name: t.result for t in w.threads}
        for name, tok_, cm, r_, trs_ in held_open:
            shut = [t_ for t_ in trs_ if w.net.transports[t_].closed]
            if shut:
                viol("held-response-broken", f"the stream of a connection with an open response (ACTIVE since before the threads started) was closed while "
                     f"other threads used the pool: T{shut}; pool={pool!r} {pool.connections}", exc=None)
            try:
                body_ = r_.read()
                cm.__exit__(None, None, None)
                if body_ != b"<" + tok_.encode() + b">":
                    viol("cross-talk", f"held response {name} (token {tok_}) delivered {body_!r}")
            except Exception as e:
                viol("held-response-broken", f"a response that was open (connection ACTIVE) while other threads used the pool failed afterwards with {exc_class(e)}: {e}; "
                     f"pool={pool!r}", exc=exc_class(e))
        if w.deadlock is not None:
            viol(w.deadlock[0], f"threads blocked forever: {w.deadlock[1]}; pool={pool!r} {pool.connections}", blocked=[b[2] for b in w.deadlock[1]] if isinstance(w.deadlock[1], list) else None)
        closing = any(k == "close-pool" for _, k, _ in plan)
        for name, kind, tok in plan:
            r = results.get(name)
            if r is None or r[0] == "aborted":
                continue
            if kind == "fail":
                if not (r[0] == "exc" and isinstance(r[1], httpcore.ConnectError)):
                    viol("refused-connect-outcome", f"thread {name}: the origin refused the connection, the call gave {r[0]}:{exc_class(r[1]) if r[0] == 'exc' else r[1]}")
                continue
            if r[0] == "exc":
                e = r[1]
                if closing and isinstance(e, (httpcore.NetworkError, httpcore.ProtocolError)):
                    continue        # the pool was closed under the request: a documented network error is acceptable
                import traceback
                tb = traceback.extract_tb(e.__traceback__)
                site = next((f"{f.filename.rsplit('/', 1)[-1]}:{f.name}" for f in reversed(tb) if "/httpcore/" in f.filename), "?")
                # which connection did the victim use, and which code closed it?
                closed_by = None
                removed_while = None
                mine = [o for o in w.net.ledger if o.task == name and o.tr is not None]
                if mine:
                    tr_ = mine[-1].tr
                    removed_while = removed_as.get(tr_.id)
                    closes = [o for o in w.net.ledger if o.kind == "close" and o.tr is tr_ and o.task != name]
                    if closes:
                        ch = closes[0].closed_from or []
                        closed_by = next((c for c in ch if "connection_pool.py" in c or "_response_closed" in c or "http_proxy" in c), ch[0] if ch else None)
                viol("collateral-failure", f"thread {name} ({kind}) failed with {exc_class(e)}: {e} raised at {site}; its connection was closed by another thread from {closed_by} (state when the pool took it out of its list: {removed_while})",
                     exc=exc_class(e), site=site, closed_by=closed_by, removed_while=removed_while)
            else:
                status, body = r[1]
                if kind in ("req", "hold") and (status != 200 or body != b"<" + tok.encode() + b">"):
                    viol("cross-talk", f"thread {name} (token {tok}) received status={status} body={body!r}")
        for c in topo.all_h1_conns():
            if c.reuse_violations:
                viol("reuse", f"{c.reuse_violations[:2]}")
            if c.parser.errors:
                viol("wire-garbled", f"{c.parser.errors[:2]}")
        for c in topo.all_h2_conns():
            if c.violations:
                viol("wire-garbled", f"{c.violations[:2]}")
        if "list" in mon:
            viol("limit-list", mon["list"])
        if "open" in mon:
            viol("limit-open", mon["open"])
        if w.deadlock is None:
            try:
                if pool._requests:
                    viol("request-still-counted", f"pool still counts requests after all threads returned: {pool!r}")
                pool.close()
            except Exception as e:
                viol("close-failed", f"pool.close() raised {exc_class(e)}: {e}")
            still = [repr(t) for t in w.net.open_transports()]
            if still and not closing:
                viol("stream-left-open", f"streams open after pool.close(): {still}")
        ex.outcome = json.dumps({"r": sorted((k, v[0] if v and v[0] != "exc" else "exc:" + exc_class(v[1]) if v else None) for k, v in results.items()),
                                 "conns": len(w.net.transports), "dead": w.deadlock[0] if w.deadlock else None})
        ex.nontrivial = w.preemptions > 0 or len(w.switch_log) > len(w.threads)
        ex.trace = [{"switches": w.switch_log[-60:]}]
        ex.notes["points"] = w.steps
        return ex


def S(ct, threads, **kw):
    return make_spec(MOD, "ThreadHarness", ct=ct, threads=threads, **kw)


def scenarios(tier):
    """-> list of (spec, bound)"""
    quick = tier == "quick"
    out = []
    # time passes (keep-alive deadline of the previous idle period) while a response is open on a re-used connection and
    # other threads make the pool run its housekeeping
    out.append((S("h11", ["req:a:w", "held:a", "tick:6", "req:b"], max_connections=2, keepalive_expiry=5.0, granularity="sync"), 2))
    # two threads handed the same still-connecting (HTTP/2-capable) proxied connection
    for ct_ in (["socks-h2"] if quick else ["socks-h2", "tunnel-h2", "h2alpn"]):
        out.append((S(ct_, ["req:a", "req:a"], max_connections=1, granularity="sync"), 2))
    L1, L2 = (1, 2)
    line_bound = 1 if quick else 2
    sync_bound = 2 if quick else 3
    for gran, bound in (("line", line_bound), ("sync", sync_bound)):
        out.append((S("h11", ["req:a", "req:a"], max_connections=1, granularity=gran), bound))
        out.append((S("h11", ["req:a", "req:b"], max_connections=1, granularity=gran), bound))
        out.append((S("h11", ["req:a", "req:a"], max_connections=2, max_keepalive=1, granularity=gran), bound))
        out.append((S("h11", ["req:a:w", "req:a", "req:a"], max_connections=1, granularity=gran), bound))
        out.append((S("h11", ["req:a:w", "early:a", "req:a"], max_connections=1, granularity=gran), bound))
        out.append((S("h11", ["req:a:w", "req:b:w", "hold:b", "req:a"], max_connections=2, max_keepalive=1, granularity=gran, server_drop="a"), bound))
        out.append((S("h11", ["req:a", "close-pool"], max_connections=2, granularity=gran), bound))
        out.append((S("h11", ["req:a", "req:a"], max_connections=1, framing="connclose", granularity=gran), bound))
    # two pre-emptions at source lines of the pool itself (lost wake-ups between a waiter's check and its wait need two)
    out.append((S("h11", ["req:a:w", "req:a", "req:a"], max_connections=1, granularity="pool-line"), 2))
    out.append((S("h11", ["req:a", "req:a"], max_connections=1, granularity="pool-line"), 2))
    out.append((S("h11", ["hold:a", "req:a"], max_connections=1, granularity="pool-line"), 2))
    out.append((S("h11", ["req:a:w", "req:a", "req:a"], max_connections=1, granularity="waiter-line"), 3))
    out.append((S("h11", ["hold:a", "req:a"], max_connections=1, granularity="waiter-line"), 3))
    if not quick:
        out.append((S("h11", ["req:a:w", "req:a", "req:a"], max_connections=1, granularity="pool-line"), 3))
    # three threads: one holds the only connection, two queue behind it
    out.append((S("h11", ["hold:a", "req:a", "req:a"], max_connections=1, granularity="sync"), sync_bound))
    out.append((S("h11", ["req:a", "req:b", "req:a"], max_connections=2, max_keepalive=0, granularity="sync"), sync_bound))
    # shared HTTP/2 connection (warm, so that the stream limit is already 100): read / write / state locks, stream semaphore
    out.append((S("h2pk", ["req:a:w", "req:a", "req:a"], max_connections=1, granularity="sync"), sync_bound))
    out.append((S("h2pk", ["req:a:w", "req:a", "req:a"], max_connections=1, granularity="line"), 1))
    out.append((S("h2pk", ["req:a:w", "early:a", "req:a"], max_connections=1, granularity="sync"), sync_bound))
    if not quick:
        out.append((S("h11", ["hold:a", "req:a", "req:a"], max_connections=1, granularity="line"), 1))
        out.append((S("h2pk", ["req:a:w", "req:a", "req:a", "req:a"], max_connections=1, granularity="sync"), 2))
        out.append((S("fwd", ["req:a", "req:a"], max_connections=1, granularity="line"), 1))
        out.append((S("tunnel", ["req:a", "req:a"], max_connections=1, granularity="sync"), 2))
    return out


def check(tier="quick", seed=0, workers=None, only=None):
    scs = scenarios(tier)
    if only:
        scs = [x for x in scs if only in x[0][1] + x[0][2]]
    total = engine.Stats(bound=None)
    per = []
    nw = workers or min(16, os.cpu_count() or 1)
    with mp.get_context("fork").Pool(nw) as pool:
        for spec, bound in scs:
            st = engine.explore(spec, bound=bound, merge=False, pool=pool, seed=seed, max_violations=400,
                                max_execs=150000 if tier == "quick" else 1000000, max_seconds=60 if tier == "quick" else 240, recheck=1)
            per.append({"scenario": spec[2][:160], "preemption_bound": bound, "executions": st.evaluations, "max_points": st.max_depth,
                        "complete": not st.caps, "caps": st.caps, "outcomes": len(st.outcomes)})
            total.merge_from(st)
            if len(total.samples) < 6:
                total.samples += st.samples[:1]
    viols = common.collect(total, ("C08",))
    cov = evidence.stats_coverage(
        total,
        rule=("per scenario: every schedule of 2-3 real threads with at most `preemption_bound` pre-emptions (CHESS), scheduling points = source lines of the sync pool/connection/"
              "protocol files ('line') or lock/event/semaphore/network operations only ('sync'); stateless (no merging): executions = schedules; "
              "non-trivial = outcome class of a schedule with at least one pre-emption or more context switches than threads"),
        extra={"scenarios": per})
    cov["exhaustive"] = all(p["complete"] for p in per)
    cov["deviation_bound_completed"] = {p["scenario"][:80]: p["preemption_bound"] for p in per if p["complete"]}
    return {"level": "model_checking", "coverage": cov, "violations": viols,
            "assumptions": ["pre-emption at source-line granularity (a read-modify-write on one line is atomic for this scheduler); C-level atomicity of single bytecodes under the GIL",
                            "threading.Lock/Event/Semaphore inside httpcore._synchronization are replaced by scheduler-aware shims with the same semantics",
                            "the server answers every request at once, so a network read blocks only until another thread's write produced the answer"]}
