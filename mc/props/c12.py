"""C12 — HTTP/2 streams are isolated, bounded and cannot wedge each other.

W-A explicit-state search against the frame-level peer in manual mode: the explorer
chooses the order of per-stream HEADERS / DATA / END_STREAM / RST_STREAM, SETTINGS
(MAX_CONCURRENT_STREAMS up, down, below the number in flight), PING, relative to the
callers' own progress; callers read to the end or abandon their response."""
from __future__ import annotations

from .. import engine, evidence
from . import common, conc

PID = "C12"


def check(tier="quick", seed=0, workers=None, only=None):
    st, info = conc.run_for(PID, tier, seed, workers, only)
    # a deadlock on a multiplexed connection is this property's business as well as C07's
    viols = common.collect(st, (PID,))
    for v in common.collect(st, ("C07", "C01")):
        v = dict(v)
        v["oracle"] = "C12." + v["oracle"].split(".", 1)[1]
        viols.append(v)
    # a multiplexed connection left ACTIVE for ever after all its callers returned, with nothing cancelled and no fault injected: a stream
    # that ended (reset by the server) was never taken off the connection's books
    for v in common.collect(st, ("C05",)):
        if v["oracle"] == "C05.connection-stuck" and v["signature"].get("trigger") in (None, "none") and "HTTP/2" in str(v["signature"].get("stuck_proto")):
            viols.append(dict(v, oracle="C12.connection-wedged", signature=dict(v["signature"], kind="connection-wedged")))
    cov = evidence.stats_coverage(
        st,
        rule=("per scenario (2-4 requests on one warm or cold HTTP/2 connection): all orders of peer events (HEADERS, DATA fragment, END_STREAM, RST_STREAM per stream; SETTINGS "
              "MAX_CONCURRENT_STREAMS; PING) and I/O completions, state-merged; oracles: token echo per stream, open-stream count by the peer's own books at every new stream "
              "against the limit the client had read, no deadlock; non-trivial = outcome class with at least three kinds of events"),
        extra={"concurrent": info, "other_oracles_seen": common.foreign(st, (PID, "C07", "C01"))})
    return {"level": "model_checking", "coverage": cov, "violations": viols,
            "assumptions": ["the limit that binds the client is the most recent MAX_CONCURRENT_STREAMS whose SETTINGS frame it has already read (1 before any, never more than 100)",
                            "read cuts inside frames are covered by C02's HTTP/2 part, not here"]}
