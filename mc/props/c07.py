"""C07 — concurrent scenarios on the virtual asyncio loop (see mc/props/conc.py), oracle prefix C07."""
from __future__ import annotations

from .. import engine, evidence
from . import common, conc

PID = "C07"


def check(tier="quick", seed=0, workers=None, only=None):
    st, info = conc.run_for(PID, tier, seed, workers, only)
    extra_st, extra_info = extra(tier, seed, workers, only)
    total = engine.Stats(bound=None)
    total.merge_from(st)
    total.samples = st.samples[:5]
    if extra_st is not None:
        total.merge_from(extra_st)
        total.samples += extra_st.samples[:3]
    viols = common.collect(total, (PID,))
    cov = evidence.stats_coverage(total, rule=RULE, extra={"concurrent": info, "other": extra_info,
                                                           "other_oracles_seen": common.foreign(total, (PID,))})
    cov["exhaustive"] = bool(total.exhaustive)
    return {"level": "model_checking", "coverage": cov, "violations": viols, "assumptions": ASSUMPTIONS}


def extra(tier, seed, workers, only):
    return None, {}


RULE = ("explicit-state search over all orders of external events (arrivals, I/O completions incl. early ones, releases, timers; "
        "plus <=1 fault or <=1 cancellation where the scenario has that budget) for each scenario of 2-4 callers on one real "
        "AsyncConnectionPool; states merged on the canonical heap fingerprint (tasks' await chains with live locals, anyio scopes, "
        "loop queues, pool, connections, h11/h2 state, simulated network and peers); non-trivial = end-state outcome class of an "
        "execution with at least three distinct kinds of events")
ASSUMPTIONS = ["asyncio FIFO ready queue is kept; nondeterminism = when external events arrive relative to loop iterations",
               "peers answer every request with exactly one well-framed response (token echo)",
               "simulated backend follows the NetworkBackend contract as the three real backends do (DESIGN.md 2.4)"]


def extra(tier, seed, workers, only):
    """The synchronous pool: lost wake-ups between threads show as deadlocks of the controlled thread scheduler
    (same harness as C08; only its deadlock / livelock verdicts are this property's)."""
    if only:
        return None, {}
    import multiprocessing as mp
    import os
    from . import c08
    scs = [(c08.S("h11", ["req:a:w", "req:a", "req:a"], max_connections=1, granularity="waiter-line"), 3),
           (c08.S("h11", ["hold:a", "req:a"], max_connections=1, granularity="waiter-line"), 3),
           (c08.S("h11", ["hold:a", "req:a", "req:a"], max_connections=1, granularity="sync"), 2),
           (c08.S("h11", ["req:a", "req:b"], max_connections=1, granularity="pool-line"), 1 if tier == "quick" else 2)]
    total = engine.Stats(bound=None)
    with mp.get_context("fork").Pool(workers or min(16, os.cpu_count() or 1)) as pool:
        for spec, bound in scs:
            st = engine.explore(spec, bound=bound, merge=False, pool=pool, seed=seed, max_violations=50, max_execs=200000, max_seconds=90, recheck=0)
            total.merge_from(st)
    from . import rconc
    rst, rinfo = rconc.run_for("C07", tier, seed, workers, only)
    total.merge_from(rst)
    for v in total.violations:
        for x in v["violations"]:
            if x["oracle"] in ("C08.deadlock", "C08.livelock"):
                x["oracle"] = "C07." + x["oracle"].split(".")[1] + "-sync"
    return total, {"thread_world_scenarios": len(scs), "schedules": total.evaluations, "trio_world": rinfo,
                   "note": "states/transitions of these stateless runs count scheduling points and executed choice edges"}
