"""C04 — concurrent scenarios on the virtual asyncio loop (see mc/props/conc.py), oracle prefix C04."""
from __future__ import annotations

from .. import engine, evidence
from . import common, conc

PID = "C04"


def check(tier="quick", seed=0, workers=None, only=None):
    st, info = conc.run_for(PID, tier, seed, workers, only)
    extra_st, extra_info = extra(tier, seed, workers, only)
    total = engine.Stats(bound=None)
    total.merge_from(st)
    total.samples = st.samples[:5]
    if extra_st is not None:
        total.merge_from(extra_st)
        total.samples += extra_st.samples[:3]
    viols = common.collect(total, (PID,))
    cov = evidence.stats_coverage(total, rule=RULE, extra={"concurrent": info, "other": extra_info,
                                                           "other_oracles_seen": common.foreign(total, (PID,))})
    cov["exhaustive"] = bool(total.exhaustive)
    return {"level": "model_checking", "coverage": cov, "violations": viols, "assumptions": ASSUMPTIONS}


def thread_scenarios(tier):
    """The sync pool under real threads (pre-emption bounded, see mc/props/c08.py), judged by the connection-limit monitor only."""
    from .c08 import S
    quick = tier == "quick"
    P = dict(prefix="C04")
    out = [
        # a request whose connect is refused leaves through the failure path while another is queued and a third arrives
        (S("h11", ["fail:x:g1", "req:a", "req:b"], max_connections=1, granularity="pool-line", **P), 1 if quick else 2),
        (S("h11", ["fail:x:g1", "req:a", "req:b"], max_connections=1, granularity="sync", **P), 2 if quick else 3),
        (S("h11", ["fail:x:g1", "fail:y", "req:a"], max_connections=1, granularity="pool-line", **P), 1 if quick else 2),
        (S("h11", ["req:a", "req:b", "req:c"], max_connections=2, granularity="sync", **P), 2 if quick else 3),
        (S("h11", ["req:a", "req:b"], max_connections=1, granularity="pool-line", **P), 2),
        (S("h11", ["req:a:w", "req:b", "req:c"], max_connections=1, granularity="pool-line", **P), 1 if quick else 2),
        (S("h11", ["hold:a", "req:b", "fail:x:g1"], max_connections=2, granularity="sync", **P), 2 if quick else 3),
        (S("h2pk", ["req:a:w", "req:a", "req:b"], max_connections=1, granularity="sync", **P), 2),
    ]
    if not quick:
        out += [(S("h11", ["fail:x:g1", "req:a", "req:b"], max_connections=1, granularity="line", **P), 1),
                (S("tunnel", ["fail:x:g1", "req:a", "req:b"], max_connections=1, granularity="sync", **P), 2),
                (S("h11", ["req:a", "req:b", "req:c", "req:a"], max_connections=2, granularity="sync", **P), 2)]
    return out


def extra(tier, seed, workers, only):
    import multiprocessing as mp
    import os
    scs = thread_scenarios(tier)
    if only:
        scs = [x for x in scs if only in x[0][1] + x[0][2]]
    total = engine.Stats(bound=None)
    per = []
    with mp.get_context("fork").Pool(workers or min(16, os.cpu_count() or 1)) as pool:
        for spec, bound in scs:
            st = engine.explore(spec, bound=bound, merge=False, pool=pool, seed=seed, max_violations=100,
                                max_execs=150000 if tier == "quick" else 1000000, max_seconds=40 if tier == "quick" else 240, recheck=1)
            per.append({"scenario": spec[2][:160], "preemption_bound": bound, "executions": st.evaluations, "complete": not st.caps, "caps": st.caps})
            total.merge_from(st)
            if len(total.samples) < 3:
                total.samples += st.samples[:1]
    return total, {"world": "real threads, baton scheduler, every schedule with at most `preemption_bound` pre-emptions (stateless)", "thread_scenarios": per}


RULE = ("explicit-state search over all orders of external events (arrivals, I/O completions incl. early ones, releases, timers; "
        "plus <=1 fault or <=1 cancellation where the scenario has that budget) for each scenario of 2-4 callers on one real "
        "AsyncConnectionPool; states merged on the canonical heap fingerprint (tasks' await chains with live locals, anyio scopes, "
        "loop queues, pool, connections, h11/h2 state, simulated network and peers); non-trivial = end-state outcome class of an "
        "execution with at least three distinct kinds of events")
ASSUMPTIONS = ["asyncio FIFO ready queue is kept; nondeterminism = when external events arrive relative to loop iterations",
               "peers answer every request with exactly one well-framed response (token echo)",
               "simulated backend follows the NetworkBackend contract as the three real backends do (DESIGN.md 2.4)"]
