"""C11 — proxy hops see exactly what is meant for them.

Exhaustive enumeration: proxy kind x credentials x proxy headers (incl. case-insensitive
collisions with request headers) x origin scheme/host/port x request headers/body x
proxy reply (CONNECT status, SOCKS method / auth / connect replies), sync and async.
Oracle: what the simulated proxy received before and after the tunnel boundary."""
from __future__ import annotations

import base64
import itertools
import multiprocessing as mp
import os

import httpcore

from .. import scen
from ..engine import Chooser
from ..seqworld import SeqWorld, exc_class
from ..simnet import core as sim
from ..simnet.http1 import H1Server, HTTPProxy, Socks5Proxy, H1RequestParser, make_echo_responder

PROXY_KINDS = ["http", "https", "socks5", "socks5h"]
CREDS = [None, ("user", "pa:ss")]
PROXY_HEADERS = [None, [("X-Route", "a"), ("Via", "p")], [("PROXY-AUTHORIZATION", "theirs"), ("x-caller", "proxy-default")]]
REQ_HEADERS = [[], [("X-Caller", "1")], [("proxy-authorization", "mine"), ("X-ROUTE", "b")], [("Authorization", "secret"), ("x-caller", "2"), ("X-Caller", "3")]]
ORIGINS = [("http", "a.example", None), ("http", "a.example", 8080), ("https", "a.example", None), ("https", "b.example", 8443)]
# IP-literal hosts (the authority needs brackets for IPv6) - explored with the first/last credentials and header choices
IP_ORIGINS = [("http", "[::1]", 8080), ("http", "[::1]", None), ("https", "[::1]", None), ("https", "[2001:db8::2]", 8443), ("https", "127.0.0.1", None)]
# request extensions that address the ORIGIN exchange and must not redirect a proxy hop
# "@resend": not an extension but a history - the caller's Request object has been sent once before (through another pool with the
# same proxy configuration, to peers of its own); what the proxy hop sees of the second transmission is judged as usual
EXTS = [None, {"sni_hostname": "sni.example"}, {"target": b"/t/alt?y=2"}, {"@resend": True}]
PRE_HOST = "preproxy.example"
BODIES = [None, b"caller-body"]
CONNECT_REPLIES = [("interim+200", 200, True), ("200", 200, False), ("204", 204, False), ("299", 299, False), ("300", 300, False),
                   ("302", 302, False), ("403", 403, False), ("407", 407, False), ("500", 500, False), ("502", 502, False),
                   ("403-latin1", 403, False), ("407-bytes", 407, False)]
REASONS = {"403-latin1": b"Acc\xe8s refus\xe9", "407-bytes": b"\xff\xfe auth"}     # obs-text is legal in a reason phrase
SOCKS_METHOD = [b"\x05\x00", b"\x05\x02", b"\x05\xff", b"\x05\x01"]
SOCKS_AUTH = [b"\x01\x00", b"\x01\x01"]
SOCKS_REPLY = [bytes([5, c, 0, 1, 127, 0, 0, 1, 4, 56]) for c in (0, 1, 2, 3, 4, 5, 6, 7, 8)] + \
              [bytes([5, 0, 0, 3, 3]) + b"abc" + b"\x00\x50", bytes([5, 0, 0, 4]) + b"\x00" * 16 + b"\x00\x50"]
DEFAULT = {"http": 80, "https": 443}


def _base_cases(tier):
    for kind in ("http", "https"):
        for cred, ph, origin, rh, body in itertools.product(CREDS, PROXY_HEADERS, ORIGINS, range(len(REQ_HEADERS)), BODIES):
            if origin[0] == "http":
                yield (kind, cred, ph, origin, rh, body, None)
            else:
                for rep in CONNECT_REPLIES:
                    yield (kind, cred, ph, origin, rh, body, rep[0])
        for cred, ph, origin, rh, body in itertools.product(CREDS, (PROXY_HEADERS[0], PROXY_HEADERS[1]), IP_ORIGINS, (0, 2), BODIES):
            if origin[0] == "http":
                yield (kind, cred, ph, origin, rh, body, None)
            else:
                for rep in ("200", "407"):
                    yield (kind, cred, ph, origin, rh, body, rep)
    for kind in ("socks5", "socks5h"):
        for cred, origin, rh, body in itertools.product(CREDS, ORIGINS, (0, 3), BODIES):
            for mr in SOCKS_METHOD:
                for ar in (SOCKS_AUTH if mr == b"\x05\x02" else SOCKS_AUTH[:1]):
                    for cr in range(len(SOCKS_REPLY)):
                        if tier == "quick" and cr not in (0, 1, 5, 9) and (origin != ORIGINS[0] or body is not None):
                            continue
                        yield (kind, cred, None, origin, rh, body, (mr.hex(), ar.hex(), cr))
        for cred, origin in itertools.product(CREDS, IP_ORIGINS):
            yield (kind, cred, None, origin, 0, None, ("0502" if cred else "0500", "0100", 0))


def cases(tier):
    for c in _base_cases(tier):
        yield c
        # the extension dimension: every case whose proxy reply lets the exchange proceed, and one refusal per kind
        kind, cred, ph, origin, rh, body, reply = c
        proceeds = reply is None or reply in ("200", "interim+200") or (isinstance(reply, tuple) and reply[2] == 0 and reply[1] == "0100"
                                                                        and reply[0] == ("0502" if cred else "0500"))
        if proceeds or reply == "407":
            for xi in range(1, len(EXTS)):
                yield c + (xi,)


def run_case(case, variant):
    # "<variant>-legacy": the pool is an httpcore.HTTPProxy / SOCKSProxy object (their own __init__ and create_connection)
    # instead of ConnectionPool(proxy=httpcore.Proxy(...))
    full_variant = variant
    legacy = variant.endswith("-legacy")
    if variant.endswith("-debuglog"):
        # the same case with DEBUG logging switched on for the "httpcore" loggers: every Trace block then takes its logging branch
        import logging
        lg = logging.getLogger("httpcore")
        old_level, old_disable = lg.level, logging.root.manager.disable
        h_ = logging.NullHandler()
        lg.addHandler(h_)
        logging.disable(logging.NOTSET)
        lg.setLevel(logging.DEBUG)
        try:
            out_ = run_case(case, variant.split("-")[0])
        finally:
            lg.setLevel(old_level)
            lg.removeHandler(h_)
            logging.disable(old_disable)
        for o_ in out_:
            o_["case"]["variant"] = full_variant
            o_["message"] = o_["message"].replace(f"variant={variant.split('-')[0]} ", f"variant={full_variant} ", 1)
        return out_
    variant = variant.split("-")[0]
    kind, cred, ph, origin, rh, body, reply = case[:7]
    ext = dict(EXTS[case[7]]) if len(case) > 7 else {}
    resend = bool(ext.pop("@resend", False))
    scheme, host, port = origin
    eff_port = port or DEFAULT[scheme]
    bare = host[1:-1] if host.startswith("[") else host      # the host without IPv6 brackets
    path = ext.get("target", b"/t/tok?x=1")                  # the origin-form target the origin must see
    want_body = b"<alt>" if "target" in ext else b"<tok>"
    req_headers = REQ_HEADERS[rh]
    origin_srv = {}

    def inner(k, h, p):
        o = origin_srv.get((h, p))
        if o is None:
            o = origin_srv[(h, p)] = H1Server(make_echo_responder("cl"), alpn="http/1.1")
        return o.new_conn()
    proxy = socks = None
    if kind in ("http", "https"):
        kw = {}
        if reply is not None:
            rep = next(r for r in CONNECT_REPLIES if r[0] == reply)
            kw = dict(connect_status=rep[1], interim=rep[2], reason=REASONS.get(rep[0], b"Proxy Says"))
        proxy = HTTPProxy(inner, forward_server=H1Server(make_echo_responder("cl"), name="fwd"), **kw)
        purl = f"{kind}://{scen.PROXY_HOST}:{scen.PROXY_PORT}"
    else:
        mr, ar, cr = reply
        socks = Socks5Proxy(inner, method_reply=bytes.fromhex(mr), auth_reply=bytes.fromhex(ar), connect_reply=SOCKS_REPLY[cr])
        purl = f"{kind}://{scen.SOCKS_HOST}:{scen.SOCKS_PORT}"

    pre_origin = {}

    def pre_inner(k, h, p):
        o = pre_origin.get((h, p))
        if o is None:
            o = pre_origin[(h, p)] = H1Server(make_echo_responder("cl"), alpn="http/1.1")
        return o.new_conn()
    pre_peer = None
    if resend:
        pre_peer = HTTPProxy(pre_inner, forward_server=H1Server(make_echo_responder("cl"), name="prefwd")) if kind in ("http", "https") else Socks5Proxy(
            pre_inner, method_reply=b"\x05\x02" if cred else b"\x05\x00")

    def router(k, h, p):
        if pre_peer is not None and h == PRE_HOST:
            return pre_peer.new_conn()
        if proxy is not None and (h, p) == (scen.PROXY_HOST, scen.PROXY_PORT):
            return proxy.new_conn()
        if socks is not None and (h, p) == (scen.SOCKS_HOST, scen.SOCKS_PORT):
            return socks.new_conn()
        return inner(k, h, p)
    w = SeqWorld(Chooser([]), router, variant=variant)
    w.env.fp = None
    w.env.starve = "timeout"
    cls = httpcore.ConnectionPool if variant == "sync" else httpcore.AsyncConnectionPool
    pobj = httpcore.Proxy(purl, auth=cred, headers=ph if kind in ("http", "https") else None,
                          ssl_context=sim.RecordingSSLContext("proxy") if kind == "https" else None)
    if not legacy:
        pool = cls(ssl_context=sim.RecordingSSLContext("origin"), proxy=pobj, network_backend=w.backend)
    elif kind in ("http", "https"):
        lcls = httpcore.HTTPProxy if variant == "sync" else httpcore.AsyncHTTPProxy
        pool = lcls(proxy_url=purl, proxy_auth=cred, proxy_headers=ph, ssl_context=sim.RecordingSSLContext("origin"),
                    proxy_ssl_context=sim.RecordingSSLContext("proxy") if kind == "https" else None, network_backend=w.backend)
    else:
        lcls = httpcore.SOCKSProxy if variant == "sync" else httpcore.AsyncSOCKSProxy
        pool = lcls(proxy_url=purl, proxy_auth=cred, ssl_context=sim.RecordingSSLContext("origin"), network_backend=w.backend)
    url = f"{scheme}://{host}" + (f":{port}" if port else "") + "/t/tok?x=1"
    result = []
    method = "POST" if body is not None else "GET"
    pre_pool = None
    if resend:
        ppurl = f"{kind}://{PRE_HOST}:{scen.PROXY_PORT if kind in ('http', 'https') else scen.SOCKS_PORT}"
        pre_pool = cls(ssl_context=sim.RecordingSSLContext("origin"), network_backend=w.backend,
                       proxy=httpcore.Proxy(ppurl, auth=cred, headers=ph if kind in ("http", "https") else None,
                                            ssl_context=sim.RecordingSSLContext("proxy") if kind == "https" else None))
    captured = []      # the Request object that pool.request() built for the first transmission
    if resend and variant == "sync":
        _orig = pre_pool.handle_request

        def _cap(request):
            captured.append(request)
            return _orig(request)
        pre_pool.handle_request = _cap
    elif resend:
        _aorig = pre_pool.handle_async_request

        async def _acap(request):
            captured.append(request)
            return await _aorig(request)
        pre_pool.handle_async_request = _acap
    if variant == "sync":
        def prog():
            try:
                if resend:
                    pre_pool.request(method, url, headers=list(req_headers), content=body, extensions=dict(ext))
                    pre_pool.close()
                    r = pool.handle_request(captured[0])
                    try:
                        r.read()
                    finally:
                        r.close()
                else:
                    r = pool.request(method, url, headers=list(req_headers), content=body, extensions=dict(ext))
                result.append(("ok", r.status, r.content))
            except Exception as e:
                result.append(("exc", e))
            result.append(("open-after-call", [t.id for t in w.net.open_transports()]))
            pool.close()
        res = w.run(sync_fn=prog)
    else:
        async def aprog():
            try:
                if resend:
                    await pre_pool.request(method, url, headers=list(req_headers), content=body, extensions=dict(ext))
                    await pre_pool.aclose()
                    r = await pool.handle_async_request(captured[0])
                    try:
                        await r.aread()
                    finally:
                        await r.aclose()
                else:
                    r = await pool.request(method, url, headers=list(req_headers), content=body, extensions=dict(ext))
                result.append(("ok", r.status, r.content))
            except Exception as e:
                result.append(("exc", e))
            result.append(("open-after-call", [t.id for t in w.net.open_transports()]))
            await pool.aclose()
        res = w.run(async_fn=aprog)

    out = []

    def bad(k, msg, **sigx):
        out.append({"oracle": "C11." + k, "message": f"{msg} | variant={full_variant} proxy={kind} cred={cred} proxy_headers={ph} origin={origin} req_headers={req_headers} body={body} reply={reply} extensions={ext}",
                    "signature": dict({"harness": "proxyhop", "kind": k, "proxy": kind}, **sigx), "case": {"case": repr(case), "variant": full_variant}})

    if res[0] != "ok":
        bad("harness-" + res[0], f"program did not finish: {res}")
        return out
    r = result[0]
    open_after = result[1][1]
    rhb = [(k.encode(), v.encode()) for k, v in req_headers]
    phb = [(k.encode(), v.encode()) for k, v in (ph or [])]
    auth_hdr = None
    if cred is not None:
        auth_hdr = b"Basic " + base64.b64encode(f"{cred[0]}:{cred[1]}".encode())
    proxy_side = ([(b"Proxy-Authorization", auth_hdr)] if auth_hdr else []) + phb
    caller_names = {k.lower() for k, _ in rhb}

    if kind in ("http", "https"):
        conns = proxy.conns
        if len(conns) != 1:
            bad("proxy-conns", f"{len(conns)} connections to the proxy")
            return out
        pc = conns[0]
        if scheme == "http":
            # ---- forwarding
            if r[0] != "ok" or r[2] != want_body:
                bad("forward-failed", f"forwarded request gave {r[0]}:{exc_class(r[1]) if r[0] == 'exc' else r[1:]}")
                return out
            fr = pc.fwd.parser.requests if pc.fwd is not None else []
            if len(fr) != 1:
                bad("forward-count", f"proxy parsed {len(fr)} forwarded requests")
                return out
            q = fr[0]
            want_target = (f"{scheme}://{host}" + (f":{port}" if port else "")).encode() + path
            if q.target != want_target:
                bad("forward-target", f"request line target {q.target!r} expected absolute URL {want_target!r}")
            merged = [(k, v) for k, v in proxy_side if k.lower() not in caller_names] + rhb
            wire = [(k, v) for k, v in q.headers if k.lower() not in (b"host", b"content-length")]
            if wire != merged:
                bad("forward-headers", f"wire headers {wire} expected proxy headers beneath the caller's: {merged}")
            hv = [v for k, v in q.headers if k.lower() == b"host"]
            if hv != [host.encode() + (b":%d" % port if port else b"")]:
                bad("forward-host", f"Host {hv}")
            if bytes(q.body) != (body or b""):
                bad("forward-body", f"body {bytes(q.body)!r}")
            return out
        # ---- tunnelling
        rep = next(x for x in CONNECT_REPLIES if x[0] == reply)
        ok2xx = 200 <= rep[1] <= 299
        cq = pc.connect_req
        if cq is None:
            bad("no-connect", f"first request to the proxy is not CONNECT: {bytes(pc.pre_tunnel)[:80]!r}")
            return out
        want = f"{host}:{eff_port}".encode()
        if cq.method != b"CONNECT" or cq.target != want:
            bad("connect-target", f"CONNECT line {cq.method!r} {cq.target!r} expected CONNECT {want!r}")
        hv = [v for k, v in cq.headers if k.lower() == b"host"]
        if hv != [want]:
            bad("connect-host", f"CONNECT Host {hv} expected {[want]}")
        # the CONNECT carries proxy-side headers only
        extra = [(k, v) for k, v in cq.headers if k.lower() not in (b"host", b"accept")]
        if extra != proxy_side:
            bad("connect-headers", f"CONNECT headers {extra} expected the proxy's own {proxy_side}")
        for k, v in rhb:
            if (k, v) in cq.headers and (k, v) not in proxy_side:
                bad("caller-header-in-connect", f"caller header {k!r} appears in the CONNECT")
        pre = bytes(pc.pre_tunnel)
        if body and body in pre:
            bad("caller-body-in-connect", "caller body bytes were sent before the tunnel was established")
        if pre.count(b"\r\n\r\n") != 1 or not pre.endswith(b"\r\n\r\n"):
            bad("pre-tunnel-bytes", f"bytes other than one CONNECT head went to the proxy before its reply: {pre[:120]!r}")
        if ok2xx:
            if r[0] != "ok" or r[2] != want_body:
                bad("tunnel-failed", f"2xx CONNECT reply but the request gave {r[0]}:{exc_class(r[1]) if r[0] == 'exc' else r[1:]}", status=rep[1])
                return out
            p2 = H1RequestParser()
            p2.feed(bytes(pc.in_tunnel))
            if len(p2.requests) != 1 or p2.errors:
                bad("tunnel-parse", f"in-tunnel bytes do not parse as one request: {p2.errors} {bytes(pc.in_tunnel)[:80]!r}")
                return out
            q = p2.requests[0]
            if q.target != path:
                bad("tunnel-target", f"in-tunnel target {q.target!r}")
            inner_h = [(k, v) for k, v in q.headers if k.lower() not in (b"host", b"content-length")]
            if inner_h != rhb:
                bad("tunnel-headers", f"in-tunnel headers {inner_h} expected exactly the caller's {rhb}")
            for k, v in proxy_side:
                if (k, v) in q.headers:
                    bad("proxy-header-in-tunnel", f"proxy header {k!r} leaked into the tunnel")
            if auth_hdr and auth_hdr in bytes(pc.in_tunnel):
                bad("proxy-credentials-in-tunnel", "Proxy-Authorization value appears inside the tunnel")
            if bytes(q.body) != (body or b""):
                bad("tunnel-body", f"in-tunnel body {bytes(q.body)!r}")
        else:
            if r[0] != "exc" or not isinstance(r[1], httpcore.ProxyError):
                bad("refusal-not-proxyerror", f"CONNECT answered {rep[1]} but the call gave {r[0]}:{exc_class(r[1]) if r[0] == 'exc' else r[1:]}", status=rep[1])
            if pc.bytes_after_refusal or pc.in_tunnel:
                bad("bytes-after-refusal", f"{pc.bytes_after_refusal + len(pc.in_tunnel)} bytes sent after a {rep[1]} reply", status=rep[1])
            if pc.tr.id in open_after:
                bad("refused-stream-open", f"proxy stream still open after the {rep[1]} refusal", status=rep[1])
        return out

    # ---- SOCKS5
    conns = socks.conns
    if len(conns) != 1:
        bad("proxy-conns", f"{len(conns)} connections to the SOCKS proxy")
        return out
    sc = conns[0]
    mr, ar, cr = reply
    want_method = 2 if cred else 0
    if sc.offered_methods != [want_method]:
        bad("socks-methods", f"greeting offers {sc.offered_methods}, configured method is {want_method}")
    method_ok = bytes.fromhex(mr)[1] == want_method
    auth_ok = (not cred) or bytes.fromhex(ar)[1] == 0
    reply_ok = SOCKS_REPLY[cr][1] == 0
    success = method_ok and auth_ok and reply_ok
    if cred and method_ok:
        if sc.userpass != (cred[0].encode(), cred[1].encode()):
            bad("socks-userpass", f"username/password sent {sc.userpass}")
    if not cred and sc.userpass is not None:
        bad("socks-userpass", "username/password sent without configured credentials")
    if method_ok and auth_ok:
        if sc.request is None:
            bad("socks-request", "no CONNECT request reached the proxy")
        else:
            cmd, atyp, addr, p = sc.request
            import ipaddress
            try:
                ip = ipaddress.ip_address(bare)
            except ValueError:
                ip = None
            addr_ok = (atyp == 3 and addr == bare.encode()) if ip is None else (
                (atyp == (4 if ip.version == 6 else 1) and addr == ip.packed) or (atyp == 3 and addr == bare.encode()))
            if cmd != 1 or not addr_ok or p != eff_port:
                bad("socks-request", f"request cmd={cmd} atyp={atyp} addr={addr!r} port={p}, expected CONNECT to {bare} port {eff_port}")
    elif sc.request is not None:
        bad("socks-request-after-failure", "CONNECT request sent although method/auth negotiation failed")
    if sc.errors:
        bad("socks-malformed", f"{sc.errors[:2]}")
    if sc.early_bytes:
        bad("socks-early-bytes", f"{sc.early_bytes} bytes sent before the proxy answered the previous step")
    if success:
        if r[0] != "ok" or r[2] != want_body:
            bad("socks-failed", f"negotiation succeeded but the request gave {r[0]}:{exc_class(r[1]) if r[0] == 'exc' else r[1:]}", reply=cr)
        if scheme == "http":
            p2 = H1RequestParser()
            p2.feed(bytes(sc.in_tunnel))
            if len(p2.requests) != 1 or [(k, v) for k, v in p2.requests[0].headers if k.lower() not in (b"host", b"content-length")] != rhb \
                    or p2.requests[0].target != path:
                bad("socks-tunnel-request", f"in-tunnel request differs from the caller's: {bytes(sc.in_tunnel)[:100]!r}")
    else:
        if r[0] != "exc":
            bad("socks-failure-ignored", f"negotiation failed (method_ok={method_ok} auth_ok={auth_ok} reply_ok={reply_ok}) but the call returned {r[1:]}")
        if sc.in_tunnel:
            bad("socks-http-before-success", f"{len(sc.in_tunnel)} HTTP bytes written although the negotiation did not succeed")
        http_like = [op for op in w.net.ledger if op.kind == "write" and op.args["data"][:1] not in (b"\x05", b"\x01")]
        if http_like:
            bad("socks-http-before-success", "HTTP bytes written to the SOCKS proxy after a failed negotiation")
    return out


def _job(chunk):
    out, n, classes = [], 0, set()
    for case in chunk:
        for variant in ("sync", "async", "sync-legacy", "async-legacy", "sync-debuglog", "async-debuglog"):
            if variant.endswith("-debuglog") and case[1] is None:
                continue        # with DEBUG logging: the cases that carry proxy credentials
            n += 1
            v = run_case(case, variant)
            out += v[:3]
            classes.add((case[0], bool(case[1]), case[2] is not None and case[2][0][0], case[3][0], case[3][1][0] in "[1", case[4], case[5] is not None, str(case[6]),
                         case[7] if len(case) > 7 else 0, bool(v)))
    return n, out, classes


def replay_case(case):
    c = eval(case["case"])  # written by this module (repr of plain tuples)
    return run_case(c, case["variant"])


def check(tier="quick", seed=0, workers=None, only=None):
    allc = list(cases(tier))
    nw = workers or min(16, os.cpu_count() or 1)
    size = max(1, len(allc) // (nw * 8))
    chunks = [allc[i:i + size] for i in range(0, len(allc), size)]
    total, viols, classes = 0, [], set()
    with mp.get_context("fork").Pool(nw) as pool:
        for n, v, cl in pool.imap(_job, chunks):
            total += n
            viols += v
            classes |= cl
    cov = {"evaluations": total, "distinct_nontrivial": len(classes), "exhaustive": True,
           "rule": ("full product proxy kind x credentials x proxy headers (incl. case-insensitive collisions) x origin x request headers x body x proxy reply "
                    "(10 CONNECT replies; SOCKS method x auth x 11 connect replies), sync and async, pool built as ConnectionPool(proxy=Proxy(...)) and as an HTTPProxy / SOCKSProxy object, the cases with credentials again with DEBUG logging on; IP-literal origins (IPv6 with and without port, IPv4); "
                    "every case whose reply lets the exchange proceed (and one refusal) again with the sni_hostname and the target request extension, and with a Request object that was already sent once through another pool; distinct class = (kind, creds?, proxy headers, scheme, request headers, body?, reply, violated?)"),
           "samples": [{"case": repr(c)[:300]} for c in allc[:: max(1, len(allc) // 5)][:5]], "cases": len(allc)}
    return {"level": "exploration", "coverage": cov, "violations": viols,
            "assumptions": ["the proxy peers record every byte before and after the tunnel boundary; non-2xx CONNECT replies carry Content-Length: 0"]}
