"""C14 — a request is put on the wire at most once unless the server refused it.

Fault enumeration with a per-token counter in the independent peers: (1) sequential
world, every operation x fault kind x connection type (seqfault); (2) asyncio world:
concurrent requests with one fault anywhere; requests racing onto a connection that turns
out to be HTTP/1.1; GOAWAY with last-stream-id in {0, below, equal, above, 2^31-1} at every
point relative to the concurrent streams, RST_STREAM; (3) connect retries (C20's tree) never
re-send request bytes."""
from __future__ import annotations

from .. import engine, evidence
from . import common, conc, c05

PID = "C14"


def check(tier="quick", seed=0, workers=None, only=None):
    specs = common.filt(c05.seq_specs(tier), only)
    st = engine.explore_many(specs, workers=workers, bound=1, seed=seed, max_violations=200)
    cst, cinfo = conc.run_for(PID, tier, seed, workers, only)
    total = engine.Stats(bound=None)
    total.merge_from(st)
    total.merge_from(cst)
    total.samples = cst.samples[:4] + st.samples[:2]
    viols = common.collect(total, (PID,))
    # "transparently re-sent": the second transmission is the caller's request (its body as well); this check's scenarios only re-send
    # requests whose body is a bytes object, which can be sent any number of times
    for v in common.collect(total, ("C03",)):
        if v["oracle"] == "C03.transmission-body" and v["signature"].get("resend"):
            viols.append(dict(v, oracle="C14.resend-differs", signature=dict(v["signature"], kind="resend-differs"),
                              message="the transparent re-send after GOAWAY is not the caller's request: " + v["message"]))
    cov = evidence.stats_coverage(
        total,
        rule=("sequential: every op x fault kind x connection type x variant; concurrent: all event orders of 1-3 callers with one fault, HTTP/1.1-fallback races, and "
              "peer-initiated GOAWAY(last id in {0,1,3,5,2^31-1}) / RST_STREAM / response events in every order; oracle = number of request heads per token seen by the peers "
              "(one re-send allowed only for a stream above a GOAWAY last-stream-id, on another connection) and 'no new stream after the client read GOAWAY'; "
              "non-trivial = outcome class of an execution with a fault or a peer-initiated event"),
        extra={"sequential": {"scenarios": len(specs), "executions": st.evaluations}, "concurrent": cinfo,
               "other_oracles_seen": common.foreign(total, (PID,))})
    return {"level": "fault_enumeration", "coverage": cov, "violations": viols,
            "assumptions": ["a transparent re-send after GOAWAY is permitted, not demanded (last-stream-id 0 is reported as an error by httpcore; the statement's wording is read as permission)",
                            "a failed write delivers none of its bytes to the peer"]}
