"""Ways of using the library that the pool-centred explorations never take (found by tools/cov_report.py: lines no check executed):
the module-level httpcore.request() / httpcore.stream() functions, pools and bare connections used as context managers, URLs whose
scheme the pool does not support.  Case-based, exhaustive over a small product; each case is judged for the property it concerns:

  C06  every stream opened during the call is closed when the function returns / the with-block is left (also by an exception)
  C03  what the server received is the caller's method, target, headers and body
  C15  an unsupported or missing scheme raises UnsupportedProtocol and nothing else
  C05  ... and leaves no request counted
"""
from __future__ import annotations

import itertools

import httpcore

from .. import scen
from ..engine import Chooser
from ..seqworld import SeqWorld, exc_class
from ..simnet import core as sim


class _Boom(Exception):
    pass


def _world(ct, variant):
    topo = scen.Topology(scen.CONN_TYPES[ct])
    w = SeqWorld(Chooser([]), topo.router, variant=variant)
    w.env.fp = None
    return topo, w


def _seen(topo, tok):
    out = []
    for c in topo.all_h1_conns():
        for r in c.parser.requests:
            if r.target.endswith(b"/t/" + tok):
                out.append((r.method, r.target, [(k, v) for k, v in r.headers if k.lower() not in (b"host", b"content-length")], bytes(r.body)))
    return out


def api_cases():
    for fn, scheme, method, how in itertools.product(["request", "stream"], ["http", "https"], ["GET", "POST"], ["read", "early-exit", "raise-inside", "read-then-raise"]):
        if fn == "request" and how != "read":
            continue
        yield ("api", fn, scheme, method, how)
    for variant, ct, how in itertools.product(["sync", "async"], ["h11", "h11tls", "h2pk", "tunnel", "socks"], ["clean", "held-response", "raise-inside"]):
        yield ("with-pool", variant, ct, how)
    for variant, scheme, how in itertools.product(["sync", "async"], ["http", "https"], ["clean", "raise-inside", "wrong-origin"]):
        yield ("with-connection", variant, scheme, how)
    for variant, scheme in itertools.product(["sync", "async"], ["http", "https"]):
        yield ("bare-h11", variant, scheme)
    for state in ("readable", "idle", "peer-closed", "closed", "none"):
        yield ("socket-readable", state)
    for variant, url in itertools.product(["sync", "async"], ["ftp://a.example/x", "//a.example/x", "a.example/x", "gopher://a.example:70/", "HTTP://a.example/t/u"]):
        yield ("scheme", variant, url)


def run_case(case):
    out = []

    def bad(prop, kind, msg, **sig):
        out.append({"oracle": f"{prop}.{kind}", "message": f"{msg} | case={case}", "signature": dict({"harness": "api-use", "kind": kind, "what": case[0]}, **sig),
                    "case": {"api": list(case)}})

    kind = case[0]
    if kind == "api":
        _, fn, scheme, method, how = case
        ct = "h11" if scheme == "http" else "h11tls"
        topo, w = _world(ct, "sync")
        import httpcore._api as api
        if not hasattr(api, "ConnectionPool"):
            return out          # the module-level functions build their pool some other way: nothing to re-bind, case left out
        real = api.ConnectionPool
        made = []

        def factory(*a, **k):
            p = real(*a, network_backend=w.backend, ssl_context=sim.RecordingSSLContext("origin"), **k)
            made.append(p)
            return p
        api.ConnectionPool = factory
        url = f"{scheme}://a.example/t/api"
        hdrs = [("X-K", "v1"), ("x-k", "v2")]
        body = b"api-body" if method == "POST" else None
        got = {}

        def prog():
            if fn == "request":
                r = httpcore.request(method, url, headers=hdrs, content=body, extensions={"timeout": {"connect": 1.0}})
                got["r"] = (r.status, r.content)
            else:
                with httpcore.stream(method, url, headers=hdrs, content=body) as r:
                    if how == "read":
                        got["r"] = (r.status, r.read())
                    elif how == "read-then-raise":
                        got["r"] = (r.status, r.read())     # the connection goes back to the private pool as idle ...
                        raise _Boom()                       # ... and then the caller's own code fails
                    elif how == "raise-inside":
                        raise _Boom()
                    else:
                        got["r"] = (r.status, None)
        try:
            res = w.run(sync_fn=prog)
        finally:
            api.ConnectionPool = real
        if res[0] == "exc" and isinstance(res[1], _Boom):
            res = ("ok", None)
        if res[0] != "ok":
            bad("C15", "api-call-failed", f"httpcore.{fn}() did not complete: {res[0]}: {exc_class(res[1]) if res[0] == 'exc' else res[1]}: {res[1]}")
            return out
        if how in ("read", "read-then-raise") and got.get("r") != (200, b"<api>"):
            bad("C01", "api-response", f"httpcore.{fn}() returned {got.get('r')}")
        still = [repr(t) for t in w.net.open_transports()]
        if still:
            bad("C06", "api-stream-left-open", f"streams still open after httpcore.{fn}() {'returned' if fn == 'request' else 'left its with-block (' + how + ')'}: {still}")
        seen = _seen(topo, b"api")
        want = (method.encode(), b"/t/api", [(k.encode(), v.encode()) for k, v in hdrs], body or b"")
        if seen != [want]:
            bad("C03", "api-request", f"the server received {seen}, the caller asked for {want}")
        cts = [op.args.get("timeout") for op in w.net.ledger if op.kind == "connect_tcp"]
        if fn == "request" and cts != [1.0]:
            bad("C16", "api-timeout", f"httpcore.request(extensions={{'timeout': {{'connect': 1.0}}}}): connect issued with timeout {cts}")
        return out

    if kind == "with-pool":
        _, variant, ct, how = case
        topo, w = _world(ct, variant)
        pool = scen.make_pool(ct, w.backend, variant, max_connections=3)
        u1, u2 = scen.url_for(ct, host="a.example", token="p1"), scen.url_for(ct, host="b.example", token="p2")
        got = {}
        if variant == "sync":
            def prog():
                with pool as p:
                    got["same"] = p is pool
                    got["r1"] = p.request("GET", u1).status
                    if how == "held-response":
                        cm = p.stream("GET", u2)
                        cm.__enter__()
                    elif how == "raise-inside":
                        p.request("GET", u2)
                        raise _Boom()
            res = w.run(sync_fn=prog)
        else:
            async def aprog():
                async with pool as p:
                    got["same"] = p is pool
                    got["r1"] = (await p.request("GET", u1)).status
                    if how == "held-response":
                        cm = p.stream("GET", u2)
                        await cm.__aenter__()
                    elif how == "raise-inside":
                        await p.request("GET", u2)
                        raise _Boom()
            res = w.run(async_fn=aprog)
        if res[0] == "exc" and isinstance(res[1], _Boom):
            res = ("ok", None)
        if res[0] != "ok" or got.get("r1") != 200 or not got.get("same"):
            bad("C15", "with-pool-failed", f"'with pool:' did not complete normally: {res[0]}: {res[1]} got={got}")
            return out
        still = [repr(t) for t in w.net.open_transports()]
        if still:
            bad("C06", "with-pool-stream-left-open", f"streams still open after leaving 'with pool:' ({how}): {still}", ct=ct)
        if pool.connections:
            bad("C06", "with-pool-connections-kept", f"connections still listed after leaving 'with pool:': {pool.connections}", ct=ct)
        return out

    if kind == "with-connection":
        _, variant, scheme, how = case
        ct = "h11" if scheme == "http" else "h11tls"
        topo, w = _world(ct, variant)
        cls = httpcore.HTTPConnection if variant == "sync" else httpcore.AsyncHTTPConnection
        conn = cls(origin=httpcore.Origin(scheme.encode(), b"a.example", 80 if scheme == "http" else 443), network_backend=w.backend,
                   ssl_context=sim.RecordingSSLContext("origin"), keepalive_expiry=5.0)
        url = f"{scheme}://a.example/t/c1"
        other = f"{scheme}://b.example/t/c2"
        got = {}
        if variant == "sync":
            def prog():
                with conn as c:
                    got["r1"] = c.request("GET", url).status
                    if how == "raise-inside":
                        raise _Boom()
                    if how == "wrong-origin":
                        try:
                            c.request("GET", other)
                            got["wrong"] = "sent"
                        except RuntimeError:
                            got["wrong"] = "refused"
            res = w.run(sync_fn=prog)
        else:
            async def aprog():
                async with conn as c:
                    got["r1"] = (await c.request("GET", url)).status
                    if how == "raise-inside":
                        raise _Boom()
                    if how == "wrong-origin":
                        try:
                            await c.request("GET", other)
                            got["wrong"] = "sent"
                        except RuntimeError:
                            got["wrong"] = "refused"
            res = w.run(async_fn=aprog)
        if res[0] == "exc" and isinstance(res[1], _Boom):
            res = ("ok", None)
        if res[0] != "ok" or got.get("r1") != 200:
            bad("C15", "with-connection-failed", f"'with connection:' did not complete normally: {res[0]}: {res[1]} got={got}")
            return out
        if how == "wrong-origin" and (got.get("wrong") != "refused" or any(b"/t/c2" in bytes(t.written) for t in w.net.transports)):
            bad("C10", "wrong-origin-sent", f"a request for b.example given to a connection made for a.example was {got.get('wrong')}; "
                                            f"bytes on its stream: {[bytes(t.written)[:60] for t in w.net.transports]}")
        still = [repr(t) for t in w.net.open_transports()]
        if still:
            bad("C06", "with-connection-stream-left-open", f"streams still open after leaving 'with connection:' ({how}): {still}")
        return out

    if kind == "bare-h11":
        # an HTTP11Connection object used directly (as the tunnel and SOCKS connections use it): its own origin gate, near-miss URLs
        _, variant, scheme = case
        ct = "h11" if scheme == "http" else "h11tls"
        topo, w = _world(ct, variant)
        port = 8080 if scheme == "http" else 8443
        dflt = 80 if scheme == "http" else 443
        other = "https" if scheme == "http" else "http"
        origin = httpcore.Origin(scheme.encode(), b"a.example", port)
        near = [f"{scheme}://a.example/t/n1", f"{scheme}://a.example:{dflt}/t/n2", f"{other}://a.example:{port}/t/n3", f"{scheme}://b.example:{port}/t/n4",
                f"{scheme}://a.example:{port + 1}/t/n5"]
        good = f"{scheme}://a.example:{port}/t/ok"
        got = {"near": []}
        if variant == "sync":
            def prog():
                stream = w.backend.connect_tcp("a.example", port)
                conn = httpcore.HTTP11Connection(origin=origin, stream=stream, keepalive_expiry=5.0)
                got["first"] = conn.request("GET", good).status
                for u in near:
                    try:
                        conn.request("GET", u)
                        got["near"].append((u, "sent"))
                    except RuntimeError:
                        got["near"].append((u, "refused"))
                    except Exception as e:
                        got["near"].append((u, exc_class(e)))
                got["last"] = conn.request("GET", good).status
                conn.close()
            res = w.run(sync_fn=prog)
        else:
            async def aprog():
                stream = await w.backend.connect_tcp("a.example", port)
                conn = httpcore.AsyncHTTP11Connection(origin=origin, stream=stream, keepalive_expiry=5.0)
                got["first"] = (await conn.request("GET", good)).status
                for u in near:
                    try:
                        await conn.request("GET", u)
                        got["near"].append((u, "sent"))
                    except RuntimeError:
                        got["near"].append((u, "refused"))
                    except Exception as e:
                        got["near"].append((u, exc_class(e)))
                got["last"] = (await conn.request("GET", good)).status
                await conn.aclose()
            res = w.run(async_fn=aprog)
        if res[0] != "ok" or got.get("first") != 200 or got.get("last") != 200:
            bad("C15", "bare-connection-failed", f"direct use of an HTTP11Connection did not complete: {res[0]}: {res[1]} got={got}")
            return out
        wrong = [x for x in got["near"] if x[1] != "refused"]
        leaked = [n for n in (b"/t/n1", b"/t/n2", b"/t/n3", b"/t/n4", b"/t/n5") if any(n in bytes(t.written) for t in w.net.transports)]
        if wrong or leaked:
            bad("C10", "wrong-origin-sent", f"a connection made for {scheme}://a.example:{port} accepted requests for other origins: {wrong}; targets seen on its stream: {leaked}")
        return out

    if kind == "socket-readable":
        # httpcore._utils.is_socket_readable on real (local, unconnected-to-anything) socket pairs: a boolean for every state, never an exception
        import socket as _socket
        from httpcore._utils import is_socket_readable
        a, b = _socket.socketpair()
        try:
            state = case[1]
            want = None
            if state == "readable":
                b.send(b"x")
                arg, want = a, True
            elif state == "idle":
                arg, want = a, False
            elif state == "peer-closed":
                b.close()
                arg, want = a, True
            elif state == "closed":
                a.close()
                arg, want = a, True
            else:
                arg, want = None, True
            try:
                r = is_socket_readable(arg)
            except Exception as e:
                bad("C15", "undocumented-exception", f"is_socket_readable({state} socket) raised {exc_class(e)}: {e} (it is called from has_expired() inside every pool pass)", leaked=exc_class(e))
                return out
            if bool(r) != want:
                bad("C09", "socket-readable", f"is_socket_readable({state} socket) returned {r!r}, expected {want}")
        finally:
            for s_ in (a, b):
                try:
                    s_.close()
                except Exception:       # noqa
                    pass
        return out

    if kind == "scheme":
        _, variant, url = case
        topo, w = _world("h11", variant)
        pool = scen.make_pool("h11", w.backend, variant)
        got = {}
        if variant == "sync":
            def prog():
                try:
                    got["r"] = ("ok", pool.request("GET", url).status)
                except Exception as e:
                    got["r"] = ("exc", e)
                got["repr"] = repr(pool)
                pool.close()
            res = w.run(sync_fn=prog)
        else:
            async def aprog():
                try:
                    got["r"] = ("ok", (await pool.request("GET", url)).status)
                except Exception as e:
                    got["r"] = ("exc", e)
                got["repr"] = repr(pool)
                await pool.aclose()
            res = w.run(async_fn=aprog)
        if res[0] != "ok":
            bad("C15", "scheme-case-failed", f"program did not finish: {res}")
            return out
        r = got["r"]
        supported = url.lower().startswith(("http://", "https://"))
        if supported:
            if r != ("ok", 200):
                bad("C19", "scheme-case", f"{url}: scheme is case-insensitive, the request gave {r[0]}:{exc_class(r[1]) if r[0] == 'exc' else r[1]}")
            return out
        if r[0] != "exc" or not isinstance(r[1], httpcore.UnsupportedProtocol):
            bad("C15", "unsupported-scheme", f"{url}: expected UnsupportedProtocol, got {r[0]}:{exc_class(r[1]) if r[0] == 'exc' else r[1]}",
                leaked=exc_class(r[1]) if r[0] == "exc" else None)
        if any(op.kind in ("connect_tcp", "write") for op in w.net.ledger):
            bad("C15", "unsupported-scheme-io", f"{url}: network operations were issued for an unsupported scheme: {[op.kind for op in w.net.ledger]}")
        if "Requests: 0 active, 0 queued" not in got["repr"]:
            bad("C05", "request-still-counted", f"{url}: after the refusal the pool reads {got['repr']}")
        return out
    raise ValueError(case)


def run_all(prefixes):
    """-> (number of runs, violations whose oracle belongs to one of the given properties)"""
    out, n = [], 0
    for c in api_cases():
        n += 1
        out += [v for v in run_case(c) if any(v["oracle"].startswith(p + ".") for p in prefixes)]
    return n, out


def replay_case(case, prefixes):
    return [v for v in run_case(tuple(case["api"])) if any(v["oracle"].startswith(p + ".") for p in prefixes)]
