"""Concurrent scenarios in the trio world (W-R): every completion order at quiescence, one fault, and a
scope cancellation after every task step of the victim (deviation-bounded, stateless).  Oracles as in
mc/props/conc.py (C01 token echo, C05, C06, C07); the same root-cause facts are computed so that the
known findings, which do not depend on the event loop, match here too."""
from __future__ import annotations

import json

import httpcore

from .. import engine, scen
from ..engine import Execution, Violation, make_spec
from ..rworld import RWorld
from ..seqworld import exc_class, documented_exception
from .seqfault import owned_transports, conn_stuck

MOD = "mc.props.rconc"


class RConcHarness:
    horizon = 6000

    def __init__(self, ct, callers, max_connections=1, faults=0, cancel_steps=0, probe=True, timers=False):
        self.timers = timers
        self.ct = ct
        self.callers = callers
        self.max_connections = max_connections
        self.faults = faults
        self.cancel_steps = cancel_steps
        self.probe = probe

    def run(self, chooser) -> Execution:
        ct = self.ct
        topo = scen.Topology(scen.CONN_TYPES[ct])
        kinds = {"connect": ["ConnectError"], "start_tls": ["ConnectError"], "read": ["ReadError"], "write": ["WriteError"]}
        w = RWorld(chooser, topo.router, faults=self.faults, cancel_steps=self.cancel_steps, fault_kinds=kinds, timers=self.timers)
        import trio
        times = {}
        served = self._served = {}
        pool = scen.make_pool(ct, w.backend, "async", max_connections=self.max_connections)
        specs = []
        for i, cs in enumerate(self.callers):
            parts = cs.split(":")
            kind, origin, opts = parts[0], parts[1], parts[2:]
            tok = f"k{i}"
            url = scen.url_for(ct, host=f"{origin}.example", token=tok)
            specs.append((f"c{i}", kind, tok, opts))

            ext = {}
            for o in opts:
                if o.startswith("pt="):
                    # the first trace event of a request is emitted once a connection has been handed to it: that instant,
                    # not the end of the whole exchange, is what the pool timeout limits (another caller's deadline may
                    # move the clock while this one is already being served)
                    async def _tr(ev, info, name=f"c{i}"):
                        served.setdefault(name, trio.current_time())
                    ext = {"timeout": {"pool": float(o[3:])}, "trace": _tr}

            def mk(kind=kind, url=url, tok=tok, ext=ext, name=f"c{i}"):
                async def prog():
                    times[name] = [trio.current_time(), None]
                    try:
                        return await body()
                    finally:
                        times[name][1] = trio.current_time()

                async def body():
                    if kind == "req":
                        r = await pool.request("GET", url, extensions=dict(ext))
                        return (r.status, r.content)
                    if kind == "hold":
                        gate = w.make_release(name)
                        async with pool.stream("GET", url, extensions=dict(ext)) as r:
                            w.arm(name)
                            await gate.wait()
                            data = await r.aread()
                        return (r.status, data)
                    if kind == "post":
                        r = await pool.request("POST", url, content=b"data-" + tok.encode())
                        return (r.status, r.content)
                    if kind == "early":
                        async with pool.stream("GET", url) as r:
                            pass
                        return (r.status, None)
                    raise ValueError(kind)
                return prog
            w.add_caller(f"c{i}", mk(), victim=("v" in opts))
        post = {}
        N = self.max_connections

        async def probe():
            post["after"] = scen.pool_summary(pool)
            post["stuck"] = [s for s in (conn_stuck(c) for c in pool.connections) if s]
            post["owned"] = owned_transports(pool)
            post["open"] = {t.id for t in w.net.open_transports() if not getattr(t, "backend_cleaned", False)}
            res, held = [], []
            if self.probe:
                for og in sorted({cs.split(":")[1] for cs in self.callers}):
                    try:
                        r0 = await pool.request("GET", scen.url_for(ct, host=f"{og}.example", token=f"again{og}"), extensions={"timeout": {"pool": 0}})
                        res.append(("ok", r0.status))
                    except Exception as e:
                        res.append(("exc", e))
                try:
                    for i in range(N):
                        cm = pool.stream("GET", scen.url_for(ct, host=f"p{i}.example", token=f"probe{i}"), extensions={"timeout": {"pool": 0}})
                        try:
                            r = await cm.__aenter__()
                            held.append(cm)
                            res.append(("ok", r.status))
                        except Exception as e:
                            res.append(("exc", e))
                finally:
                    for cm in held:
                        await cm.__aexit__(None, None, None)
            await pool.aclose()
            return res
        w.post = probe
        w.run()
        ex = self.judge(w, topo, pool, specs, post)
        self.judge_pool_timeouts(ex, w, specs, times, pool)
        return ex

    def judge_pool_timeouts(self, ex, w, specs, times, pool):
        """C16 under trio: PoolTimeout exactly T after the request was enqueued, never for a request that was served."""
        results = {c["name"]: c["result"] for c in w.callers}
        for (name, kind, tok, opts) in specs:
            pt = next((float(o[3:]) for o in opts if o.startswith("pt=")), None)
            r = results.get(name)
            if pt is None or r is None or name not in times or times[name][1] is None:
                continue
            waited = round(times[name][1] - times[name][0], 6)
            sig = {"harness": "conc", "world": "trio", "ct": self.ct, "pool_timeout_race": False}
            desc = f"world=trio ct={self.ct} callers={self.callers} N={self.max_connections} events={w.events_log[-20:]}"
            if r[0] == "exc" and isinstance(r[1], httpcore.PoolTimeout):
                if waited != pt:
                    ex.violations.append(Violation("C16.pool-timeout-instant", f"caller {name}: PoolTimeout after {waited}s, configured pool timeout {pt}s | {desc}",
                                                   dict(sig, kind="pool-timeout-instant")))
            elif r[0] == "exc":
                ex.violations.append(Violation("C16.pool-timeout-class", f"caller {name}: {exc_class(r[1])}: {r[1]} instead of PoolTimeout / an answer | {desc}",
                                               dict(sig, kind="pool-timeout-class")))
            elif r[0] == "ok" and round(self._served.get(name, times[name][1]) - times[name][0], 6) > pt:
                waited = round(self._served.get(name, times[name][1]) - times[name][0], 6)
                ex.violations.append(Violation("C16.pool-timeout-missed", f"caller {name} was served after waiting {waited}s in a pool with pool timeout {pt}s (no connection was handed to it in time?) | {desc}",
                                               dict(sig, kind="pool-timeout-missed")))

    def judge(self, w, topo, pool, specs, post):
        ex = Execution()
        inj = w.env.injected
        vic = w.victim
        canc = vic is not None and vic["cancelled"]
        ex.nontrivial = bool(inj or canc) or len(set(w.events_log)) > 2
        ex.trace = [{"events": w.events_log[-60:]}, {"ledger": [op.rec() for op in w.net.ledger][-40:]}]
        base = {"harness": "conc", "world": "trio", "ct": self.ct}
        trig = "none"
        if canc:
            ci = vic["cancel_info"]
            trig = "cancel-scope"
            base.update(trigger=trig, site=ci["where"], site_tail=ci["where"].split(" > ")[-1].split(":")[-1], in_httpcore_shield=ci["httpcore_shield"])
            vorigin = next(cs.split(":")[1] for i, cs in enumerate(self.callers) if f"c{i}" == vic["name"])
            base["shared_connecting"] = bool(scen.CONN_TYPES[self.ct]["http2"] and sum(1 for cs in self.callers if cs.split(":")[1] == vorigin) > 1)
            open_now = [t for t in w.net.transports if not t.closed and not getattr(t, "backend_cleaned", False)]
            base["orphan_opened_by_victim"] = vic["name"] in {op.task for op in w.net.ledger if op.kind.startswith("connect") and op.tr in open_now}
        elif inj:
            trig = f"fault-{inj[0][1]}"
            base.update(trigger=trig, fault_op=w.net.ledger[inj[0][0]].kind)
        else:
            base["trigger"] = None
        stuck_infos = post["stuck"] if "stuck" in post else [x for x in (conn_stuck(c) for c in pool.connections) if x]
        st_now = []
        for s_ in stuck_infos:
            parts = [p.strip() for p in s_.split(",")]
            st_now.append((parts[-2] if len(parts) >= 3 else s_, parts[-3] if len(parts) >= 3 else "-"))
        base["stuck"] = sorted({x[0] for x in st_now})
        base["stuck_proto"] = sorted({x[1] for x in st_now})
        base["write_cancelled"] = any(op.kind == "write" and op.state == "cancelled" for op in w.net.ledger)
        base["pool_timeout_race"] = False
        desc = f"world=trio ct={self.ct} callers={self.callers} N={self.max_connections} trigger={trig} site={base.get('site')} cancel_after_step={w.cancel_at} events={w.events_log[-20:]}"

        def viol(prop, kind, msg, **x):
            ex.violations.append(Violation(f"{prop}.{kind}", f"{msg} | {desc}", dict(base, kind=kind, **x)))
        results = {c["name"]: c["result"] for c in w.callers}
        for (name, kind, tok, opts) in specs:
            r = results[name]
            if r is None:
                continue
            if r[0] == "ok":
                status, body = r[1]
                want = b"<" + tok.encode() + b">"
                if status != 200 or (body is not None and body != want):
                    viol("C01", "cross-talk", f"caller {name} (token {tok}) received status={status} body={body!r}")
            elif r[0] == "exc":
                e = r[1]
                if not documented_exception(e):
                    viol("C15", "undocumented-exception", f"caller {name}: {exc_class(e)}: {e}", leaked=exc_class(e))
                elif isinstance(e, httpcore.PoolTimeout) and any(o.startswith("pt=") for o in opts):
                    pass        # judged by judge_pool_timeouts
                elif not inj and not canc:
                    viol("C08", "collateral-failure", f"caller {name} failed with {exc_class(e)}: {e} although nothing was injected")
        if w.deadlock is not None:
            kind, info = w.deadlock
            viol("C07", kind, f"callers blocked forever: {[c['name'] for c in w.callers if not c['done']]}; pool={pool!r} {pool.connections}")
            if (canc or inj) and kind == "deadlock":
                viol("C05", "others-blocked", f"after the failed/cancelled request other callers are blocked forever; pool={pool!r} {pool.connections}")
            ex.outcome = f"{kind}:{sorted((k, (v[0] if v else None)) for k, v in results.items())}"
            return ex
        for c in topo.all_h1_conns():
            if c.reuse_violations:
                viol("C01", "reuse", f"{c.reuse_violations[:2]}")
        after = post["after"]
        if after["requests"] != 0 or "Requests: 0 active, 0 queued" not in after["repr"]:
            viol("C05", "request-still-counted", f"pool after all callers returned: {after['repr']}")
        if post["stuck"]:
            st = post["stuck"][0]
            viol("C05", "connection-stuck", f"pooled connection neither idle, closed nor expired after all callers returned: {post['stuck']}",
                 state=[p.strip() for p in st.split(",")][-2] if "," in st else st)
        pr = w.post_result or ("deadlock", None)
        if pr[0] != "ok":
            viol("C05", "probe-" + pr[0], f"capacity probe did not terminate normally: {pr}; pool after callers: {after['conns']}")
        else:
            bad = [p for p in pr[1] if p[0] != "ok"]
            if bad:
                viol("C05", "capacity-lost", f"probe failed: {[exc_class(p[1]) for p in bad]}; pool after callers: {after['conns']}", probe_exc=exc_class(bad[0][1]))
        orphans = sorted(post["open"] - post["owned"])
        if orphans:
            viol("C06", "orphan-stream", f"open streams not owned by any pooled connection at quiescence: {[repr(w.net.transports[i]) for i in orphans]}")
        still = [repr(t) for t in w.net.open_transports() if not getattr(t, "backend_cleaned", False)]
        if still and pr[0] == "ok":
            viol("C06", "open-after-pool-close", f"streams still open after pool.aclose(): {still}")
        ex.outcome = json.dumps({"r": sorted((k, v[0] if v[0] != "exc" else "exc:" + exc_class(v[1])) for k, v in results.items()),
                                 "pool": after["repr"].split("[")[1], "trig": trig})
        return ex


def S(ct, callers, **kw):
    return make_spec(MOD, "RConcHarness", ct=ct, callers=callers, **kw)


def scenarios(pid, tier):
    quick = tier == "quick"
    out = []
    if pid == "C16":
        # PoolTimeout under trio (trio.fail_after in _synchronization.AsyncEvent.wait): all orders of release / deadline / completions
        for ct in (["h11", "h2alpn"] if quick else ["h11", "h11tls", "h2alpn", "tunnel", "socks"]):
            # (with trio's batch order pinned, the task started LAST runs first: the holder is listed last)
            out.append((S(ct, ["req:b:pt=5", "hold:a"], max_connections=1, timers=True, probe=False), 3 if quick else 4))
            out.append((S(ct, ["req:a:pt=0"], max_connections=1, timers=True, probe=False), 2))
            out.append((S(ct, ["req:a:pt=0", "hold:a"], max_connections=2, timers=True, probe=False), 2))
            if not quick:
                out.append((S(ct, ["req:b:pt=7", "req:b:pt=5", "hold:a"], max_connections=1, timers=True, probe=False), 3))
        return out
    cts = ["h11", "h11tls", "tunnel", "socks", "h2alpn"] if quick else list(scen.CONN_TYPES)
    for ct in cts:
        h2 = scen.CONN_TYPES[ct]["proto"] == "h2"
        steps = 260 if h2 else 60
        out.append((S(ct, ["req:a:v"], max_connections=1, cancel_steps=steps), 1))
        out.append((S(ct, ["req:a:v", "req:b"], max_connections=1, cancel_steps=steps), 1))
        out.append((S(ct, ["post:a", "req:b"], max_connections=1, faults=1), 2))
        out.append((S(ct, ["req:a", "req:a", "req:b"], max_connections=2, probe=False), 2))
        if h2:
            out.append((S(ct, ["req:a:v", "req:a"], max_connections=1, cancel_steps=steps), 1))
    return out


def run_for(pid, tier, seed, workers, only):
    import multiprocessing as mp
    import os
    scs = scenarios(pid, tier)
    if only:
        scs = [x for x in scs if only in x[0][1] + x[0][2]]
    total = engine.Stats(bound=None)
    if not scs:
        return total, {"scenarios": 0}
    with mp.get_context("fork").Pool(workers or min(16, os.cpu_count() or 1)) as pool:
        for spec, bound in scs:
            st = engine.explore(spec, bound=bound, merge=False, pool=pool, seed=seed, max_violations=200, max_execs=40000, max_seconds=120, recheck=1)
            total.merge_from(st)
            if len(total.samples) < 4:
                total.samples += st.samples[:1]
    return total, {"world": "trio (MockClock, pinned batch order, controller at wait_all_tasks_blocked, scope cancellation after every task step of the victim)",
                   "scenarios": len(scs), "executions": total.evaluations, "caps": total.caps[:5]}
