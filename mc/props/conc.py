"""Concurrent (virtual asyncio loop) scenarios shared by C01/C04/C05/C06/C07 — placeholder until W-A is built."""
from .. import engine


def run_for(pid, tier, seed, workers, only):
    return engine.Stats(bound=None), {"scenarios": 0, "note": "asyncio-world scenarios not built yet"}
