"""Concurrent scenarios on the virtual asyncio loop (W-A), shared by
C01 / C04 / C05 / C06 / C07 / C14: 2-4 callers against one real AsyncConnectionPool,
all orders of external events (state-merged), optional fault and cancellation budgets.
One exploration evaluates every oracle; each property's check keeps its own."""
from __future__ import annotations

import json
import re

import httpcore

from .. import engine, scen
from ..aworld import AWorld
from ..engine import Execution, Violation, make_spec
from ..seqworld import exc_class, documented_exception
from .seqfault import owned_transports, conn_stuck

MOD = "mc.props.conc"


def reachable_transports(conn):
    out, seen = set(), set()

    def walk(o, d=0):
        if o is None or id(o) in seen or d > 6:
            return
        seen.add(id(o))
        tr = getattr(o, "_tr", None)
        if tr is not None and hasattr(tr, "inbound"):
            out.add(tr.id)
        for a in ("_connection", "_network_stream", "_stream"):
            walk(getattr(o, a, None), d + 1)
    walk(conn)
    return out


class H2Script:
    """Peer-initiated HTTP/2 events offered to the explorer (manual response mode) with their budgets."""

    def __init__(self, topo, cfg):
        self.topo = topo
        self.frag = cfg.get("frag", 1)
        self.goaway = list(cfg.get("goaway", []))
        self.goaway_budget = 1 if self.goaway else 0
        self.rst = cfg.get("rst", 0)
        self.rst_code = cfg.get("rst_code", 8)
        self.settings = list(cfg.get("settings", []))
        self.ping = cfg.get("ping", 0)
        self.mfs = list(cfg.get("mfs", []))        # SETTINGS_MAX_FRAME_SIZE values the server may send (once each)
        self.wu = list(cfg.get("wu", []))          # [(target "conn"|"stream", increment)]
        self.wu_budget = cfg.get("wu_budget", 0)
        self.early_hdr = cfg.get("early_hdr", False)
        self.half = {}

    def _mc_state(self):
        return ("h2script", self.goaway_budget, self.rst, tuple(self.settings), tuple(self.mfs), self.ping, self.wu_budget, sorted(self.half.items()))

    def events(self):
        out = []
        for ci, conn in enumerate(self.topo.all_h2_conns()):
            if conn.tr.closed or conn.tr.peer_eof:
                continue
            for sid in conn.order:
                s = conn.streams[sid]
                tag = f"{ci}.{sid}"
                refused = conn.goaway_sent is not None and sid > conn.goaway_sent[0]
                if self.early_hdr and s.headers is not None and not s.end_stream and not s.responded and not s.closed and not refused:
                    # early response: HEADERS before the request body is complete
                    out.append((f"ehdr{tag}", lambda conn=conn, s=s: conn.send_headers(s.id, [(b":status", b"200"), (b"x-echo", s.token or b"?")])))
                if s.end_stream and not s.responded and not s.closed and not refused:
                    out.append((f"hdr{tag}", lambda conn=conn, s=s: conn.send_headers(s.id, [(b":status", b"200"), (b"x-echo", s.token or b"?")])))
                elif s.responded and not s.resp_sent_end and s.end_stream:
                    body = conn.server.body_for(s.token)
                    if self.frag == 2 and (ci, sid) not in self.half:
                        def first(conn=conn, s=s, body=body, ci=ci, sid=sid):
                            self.half[(ci, sid)] = 1
                            conn.send_data(s.id, body[: len(body) // 2], end_stream=False)
                        out.append((f"data{tag}", first))
                    else:
                        rest = body[len(body) // 2:] if self.frag == 2 else body
                        out.append((f"end{tag}", lambda conn=conn, s=s, rest=rest: conn.send_data(s.id, rest, end_stream=True)))
                if self.rst > 0 and s.headers is not None and not s.closed and not s.resp_sent_end:
                    def rst(conn=conn, s=s):
                        self.rst -= 1
                        conn.send_rst(s.id, self.rst_code)
                    out.append((f"rst{tag}", rst))
                if self.wu_budget > 0 and s.headers is not None and not s.end_stream and not s.closed:
                    for tgt, inc in self.wu:
                        def wu(conn=conn, s=s, tgt=tgt, inc=inc):
                            self.wu_budget -= 1
                            conn.send_window_update(0 if tgt == "conn" else s.id, inc)
                        out.append((f"wu-{tgt}+{inc}@{tag}", wu))
            if conn.goaway_sent is not None:
                accepted_open = [x for x in conn.streams.values() if x.id <= conn.goaway_sent[0] and not (x.resp_sent_end or x.closed)]
                if not accepted_open:
                    out.append((f"fin@{ci}", lambda conn=conn: conn.tr.shutdown()))
            if self.goaway_budget > 0 and conn.got_preface:
                for last in self.goaway:
                    def ga(conn=conn, last=last):
                        self.goaway_budget -= 1
                        conn.send_goaway(last)
                    out.append((f"goaway{last}@{ci}", ga))
            for k in list(self.settings):
                def st(conn=conn, k=k):
                    self.settings.remove(k)
                    conn.send_settings({3: k})
                if conn.got_preface:
                    out.append((f"settings{k}@{ci}", st))
            for k in list(self.mfs):
                def mf(conn=conn, k=k):
                    self.mfs.remove(k)
                    conn.send_settings({5: k})
                if conn.got_preface:
                    out.append((f"maxframe{k}@{ci}", mf))
            if self.ping > 0 and conn.got_preface:
                def pg(conn=conn):
                    self.ping -= 1
                    conn.send_ping()
                out.append((f"ping@{ci}", pg))
        return out


class ConcHarness:
    """callers: list of "kind:origin[:opt...]" with kind in req | post | hold | early
       options: pt=<pool timeout>, v (may be cancelled), late (arrives by an environment event)"""

    def __init__(self, ct, callers, max_connections=1, max_keepalive=None, faults=0, cancels=0, styles=("scope",),
                 early=True, framing="cl", h2cfg=None, horizon=600, keepalive_expiry=None, fault_set="one", h2script=None, probe=True, tick=0, connect_status=200, idle_close=0, trace=False):
        self.trace = trace          # every request carries an async `trace` callback that really suspends (one checkpoint per event)
        self.connect_status = connect_status
        self.idle_close = idle_close        # budget of "server closes an idle HTTP/1.1 connection" events
        self.h2script = h2script
        self.probe = probe
        self.tick = tick            # virtual seconds that pass between the warm-up callers and the others
        self.ct = ct
        self.callers = callers
        self.max_connections = max_connections
        self.max_keepalive = max_keepalive
        self.faults = faults
        self.cancels = cancels
        self.styles = tuple(styles)
        self.early = early
        self.framing = framing
        self.h2cfg = h2cfg or {}
        self.horizon = horizon
        self.keepalive_expiry = keepalive_expiry
        self.fault_set = fault_set

    def run(self, chooser) -> Execution:
        ct = self.ct
        h2cfg = dict(self.h2cfg)
        if self.h2script is not None:
            h2cfg.setdefault("respond", "manual")
        topo = scen.Topology(scen.CONN_TYPES[ct], framing=self.framing, h2cfg=h2cfg, connect_status=self.connect_status)
        kinds = None
        if self.fault_set == "one":
            kinds = {"connect": ["ConnectError"], "start_tls": ["ConnectError"], "read": ["ReadError"], "write": ["WriteError"]}
        results: dict = {}
        uploads: dict = {}
        self._uploads = uploads
        results_warm: dict = {}
        self._results_warm = results_warm
        times: dict = {}
        self._times = times
        w = AWorld(chooser, topo.router, faults=self.faults, cancels=self.cancels, cancel_styles=self.styles, early=self.early,
                   fault_kinds=kinds, horizon=self.horizon, extra_roots=[results])
        pool = scen.make_pool(ct, w.backend, "async", max_connections=self.max_connections,
                              max_keepalive_connections=self.max_keepalive, keepalive_expiry=self.keepalive_expiry)
        w.roots.append(pool)
        # which task created each connection (root-cause fact: a connection left CONNECTING that the victim's own clean-up created is a
        # different defect from one that another task had created for it just before it died)
        created_by: dict = {}
        self._created_by = created_by
        _orig_create = pool.create_connection

        def _mc_create_connection(origin):
            conn = _orig_create(origin)
            import asyncio as _a
            t_ = _a.current_task()
            created_by[id(conn)] = t_.get_name() if t_ is not None else None
            return conn
        pool.create_connection = _mc_create_connection
        script = None
        if self.h2script is not None:
            script = H2Script(topo, self.h2script)
            w.roots.append(script)
        idle_budget = [self.idle_close]
        w.roots.append(idle_budget)

        def server_events():
            evs = script.events() if script is not None else []
            if idle_budget[0] > 0:
                for hc in topo.all_h1_conns():
                    tr = hc.tr
                    p_ = hc.parser
                    idle_now = tr is not None and not tr.closed and not tr.peer_eof and p_.cur is None and p_.requests and hc.responses_sent == len(p_.requests) and not tr.inbound
                    if idle_now:
                        def drop(tr=tr):
                            idle_budget[0] -= 1
                            tr.shutdown()
                        evs.append((f"idleclose@{tr.host}", drop))
            return evs
        if script is not None or self.idle_close:
            w.server_events = server_events
        ever_pooled: list = []
        c04 = {"max_list": 0, "max_open": 0}
        N = self.max_connections

        def mon(world):
            conns = pool.connections
            for c in conns:
                if not any(c is e for e in ever_pooled):
                    ever_pooled.append(c)
            if len(conns) > N and "list" not in c04:
                c04["list"] = f"pool holds {len(conns)} connections > max_connections={N}: {conns}"
            evicted_tr = set()
            for e in ever_pooled:
                if not any(e is c for c in conns):
                    evicted_tr |= reachable_transports(e)
            if not world.loop.live_ready() and not world.net.pending:
                # "apart from connections it has already evicted and is CLOSING": by quiescence the closing is over,
                # so a stream of an evicted connection that is still open then counts like any other
                evicted_tr = set()
            open_tr = [t for t in world.net.open_transports() if t.id not in evicted_tr and not getattr(t, "backend_cleaned", False)]
            inflight = sum(1 for op in world.net.pending if op.kind.startswith("connect"))
            c04["max_list"] = max(c04["max_list"], len(conns))
            c04["max_open"] = max(c04["max_open"], len(open_tr) + inflight)
            if len(open_tr) + inflight > N and "open" not in c04:
                c04["open"] = f"{len(open_tr)} open streams + {inflight} connects in flight > max_connections={N}: {open_tr}; pool={conns}"
            # C07 serviceable waiter, judged only at quiescence
            if not world.loop.live_ready():
                for pr in pool._requests:
                    if pr.is_queued():
                        origin = pr.request.url.origin
                        why = None
                        if any(c.can_handle_request(origin) and c.is_available() for c in conns):
                            why = "an available connection for its origin exists"
                        elif len(conns) < N:
                            why = "the pool is below its connection limit"
                        elif any(c.is_idle() for c in conns):
                            why = "an idle connection could be evicted"
                        elif any(c.is_closed() for c in conns):
                            why = "a closed connection occupies a slot"
                        if why and "c07" not in c04:
                            c04["c07"] = f"request for {origin} is queued at quiescence although {why}; pool={pool!r} {conns}"
            # C12 head-of-line: at full quiescence (nothing runnable, no I/O in flight other than reads waiting for the server to
            # speak) a request
            # that was handed an HTTP/2 connection with a free stream slot must be on the wire; if it is not, it waits behind
            # another request's *response*, which the server is free to withhold for ever
            starving_reads_only = all(op.kind == "read" and not op.tr.inbound and not op.tr.peer_eof and not op.tr.closed for op in world.net.pending)
            if not world.loop.live_ready() and starving_reads_only and "c12" not in c04:
                seen = None
                for pr in pool._requests:
                    c = getattr(pr, "connection", None)
                    if c is None:
                        continue
                    h2c, hops = c, 0
                    while h2c is not None and not hasattr(h2c, "_h2_state") and hops < 4:
                        h2c, hops = getattr(h2c, "_connection", None), hops + 1
                    if h2c is None or not hasattr(h2c, "_h2_state") or not getattr(h2c, "_sent_connection_init", False):
                        continue
                    if not h2c.is_available() or len(h2c._events) >= h2c._max_streams:
                        continue
                    m_ = re.match(rb"^/t/([A-Za-z0-9_.-]+)", pr.request.url.target)
                    if not m_:
                        continue
                    if seen is None:
                        seen = {t for t in topo.seen_tokens()}
                    if m_.group(1) not in seen and m_.group(1).decode() not in seen:
                        c04["c12"] = (f"request {pr.request.url.target!r} was handed {c!r} ({len(h2c._events)} of {h2c._max_streams} streams in use) but has not been sent "
                                      f"although nothing is runnable and no I/O is in flight: it waits behind another request's response")

        w.monitors.append(mon)

        specs = []
        warm = []
        last_trace_event: dict = {}
        self._last_trace_event = last_trace_event
        for i, cs in enumerate(self.callers):
            parts = cs.split(":")
            kind, origin, opts = parts[0], parts[1], parts[2:]
            name = f"c{i}"
            tok = f"k{i}"
            ext = {}
            for o in opts:
                if o.startswith("pt="):
                    ext = {"timeout": {"pool": float(o[3:])}}
            url = scen.url_for(ct, host=f"{origin}.example", token=tok)
            specs.append((name, kind, tok, opts))
            if self.trace:
                async def _suspending_trace(event_name, info, _who=name):
                    import anyio.lowlevel
                    last_trace_event[_who] = event_name      # root-cause fact: which event's callback a cancellation lands in / right after
                    await anyio.lowlevel.checkpoint()
                ext = dict(ext, trace=_suspending_trace)

            def mk(kind=kind, url=url, tok=tok, name=name, ext=ext):
                async def prog():
                    times[name] = [w.loop.time(), None]
                    try:
                        return await body()
                    finally:
                        times[name][1] = w.loop.time()

                async def body():
                    if kind == "req":
                        r = await pool.request("GET", url, extensions=dict(ext))
                        return (r.status, r.content)
                    if kind == "post":
                        uploads[tok] = b"data-" + tok.encode()
                        r = await pool.request("POST", url, content=b"data-" + tok.encode(), extensions=dict(ext))
                        return (r.status, r.content)
                    if kind == "ipost":
                        # body given as a one-shot async iterator (cannot be replayed by the caller's object itself)
                        payload = b"iter-" + tok.encode()
                        uploads[tok] = payload

                        async def agen():
                            yield payload[:3]
                            yield payload[3:]
                        r = await pool.request("POST", url, headers=[("Content-Length", str(len(payload)))], content=agen(), extensions=dict(ext))
                        return (r.status, r.content)
                    if kind.startswith("up"):
                        n = int(kind[2:])
                        payload = (tok.encode() * (n // len(tok) + 1))[:n]
                        uploads[tok] = payload
                        r = await pool.request("POST", url, content=payload, extensions=dict(ext))
                        return (r.status, r.content)
                    if kind == "hold":
                        gate = w.make_release(name)
                        async with pool.stream("GET", url, extensions=dict(ext)) as r:
                            await gate.wait()
                            body = await r.aread()
                        return (r.status, body)
                    if kind == "early":
                        async with pool.stream("GET", url, extensions=dict(ext)) as r:
                            pass
                        return (r.status, None)
                    if kind == "closepool":
                        # the pool is closed while it is in use (it stays usable afterwards: later requests open new connections)
                        await pool.aclose()
                        return (200, None)
                    raise ValueError(kind)
                return prog
            if "w" in opts:
                warm.append((name, mk()))
            else:
                w.add_caller(name, mk(), cancellable=("v" in opts), arrive="event" if "late" in opts else "start")

        ex = Execution()
        try:
            # warm-up callers run to completion first, with default environment answers and no choices
            if warm:
                w.loop.install()
                f0, c0_ = w.env.faults, w.cancels
                w.env.faults, w.cancels = 0, 0
                se, w.server_events = w.server_events, None
                for o_ in topo.origins.values():
                    if hasattr(o_, "cfg"):
                        o_.cfg["respond"] = "auto"
                saved_resp = topo.h2cfg.get("respond")
                topo.h2cfg["respond"] = "auto"
                for name, fn in warm:
                    r_ = w.drain(fn)
                    results_warm[name] = r_
                for o_ in topo.origins.values():
                    if hasattr(o_, "cfg") and self.h2script is not None:
                        o_.cfg["respond"] = "manual"
                if saved_resp is None:
                    topo.h2cfg.pop("respond", None)
                else:
                    topo.h2cfg["respond"] = saved_resp
                w.env.faults, w.cancels, w.server_events = f0, c0_, se
                if self.tick:
                    w.loop.advance(self.tick)
            w.run()
            post = {}
            if w.deadlock is None:
                post["after"] = scen.pool_summary(pool)
                post["stuck"] = [s for s in (conn_stuck(c) for c in pool.connections) if s]
                post["owned"] = owned_transports(pool)
                post["open"] = {t.id for t in w.net.open_transports() if not getattr(t, "backend_cleaned", False)}
                post["h2_slots"] = h2_slot_books(pool)

                async def probe():
                    held, res = [], []
                    if self.probe:
                        # a later request to every origin the callers used must still be served (a leaked per-connection
                        # resource, e.g. an HTTP/2 stream slot, only hurts requests to the same origin)
                        for og in sorted({cs.split(":")[1] for cs in self.callers}):
                            try:
                                r0 = await pool.request("GET", scen.url_for(ct, host=f"{og}.example", token=f"again{og}"), extensions={"timeout": {"pool": 0}})
                                res.append(("ok", r0.status) if r0.content == b"<again" + og.encode() + b">" else ("exc", RuntimeError(f"wrong body {r0.content!r}")))
                            except Exception as e:
                                res.append(("exc", e))
                    try:
                        for i in range(N if self.probe else 0):
                            cm = pool.stream("GET", scen.url_for(ct, host=f"p{i}.example", token=f"probe{i}"), extensions={"timeout": {"pool": 0}})
                            try:
                                r = await cm.__aenter__()
                                held.append(cm)
                                res.append(("ok", r.status))
                            except Exception as e:
                                res.append(("exc", e))
                    finally:
                        for cm in held:
                            await cm.__aexit__(None, None, None)
                    await pool.aclose()
                    return res
                saved_f, saved_c = w.env.faults, w.cancels
                w.env.faults = 0
                w.cancels = 0
                w.server_events = None
                for o in topo.origins.values():
                    if hasattr(o, "cfg"):
                        o.cfg["respond"] = "auto"
                topo.h2cfg["respond"] = "auto"
                post["probe"] = w.drain(probe)
                post["open_end"] = [repr(t) for t in w.net.open_transports() if not getattr(t, "backend_cleaned", False)]
            self.judge(ex, w, topo, pool, specs, post, c04)
        finally:
            w.close()
        return ex

    def judge(self, ex, w, topo, pool, specs, post, c04):
        ex.notes["unmergeable"] = sorted(w.unmergeable)
        inj = w.env.injected
        peer_events = [e for e in w.events_log if e.startswith(("srv:goaway", "srv:rst", "srv:fin"))]
        canc = [c for c in w.callers if c["cancel_delivered"] is not None]
        ex.nontrivial = bool(inj or canc or any(not e.startswith(("run", "arrive")) and "|" not in e for e in w.events_log[:0])) or len(set(w.events_log)) > 2
        ex.trace = [{"events": w.events_log[-80:]}, {"ledger": [op.rec() for op in w.net.ledger][-60:]}]
        base = {"harness": "conc", "ct": self.ct}
        trig = "none"
        if canc:
            cd = canc[0]["cancel_delivered"]
            trig = f"cancel-{cd['style']}"
            base.update(trigger=trig, site=cd["where"], site_tail=cd["where"].split(" > ")[-1].split(":")[-1],
                        in_httpcore_shield=cd["httpcore_shield"])
            if cd.get("assigned_while_queued") is not None:
                # the victim was parked in the pool queue when the cancellation was requested; which task created the connection(s)
                # that are stuck afterwards - the victim's own clean-up, or another task on the victim's behalf?
                stuck_conns = [c_ for c_ in pool.connections if conn_stuck(c_)]
                base["queued_victim"] = True
                base["stuck_created_by_victim"] = any(self._created_by.get(id(c_)) == canc[0]["name"] for c_ in stuck_conns)
        elif inj:
            op = w.net.ledger[inj[0][0]]
            trig = f"fault-{inj[0][1]}"
            base.update(trigger=trig, fault_op=op.kind, site=inj[0][2])
        # states of pooled connections that can neither serve, expire nor be evicted (symptom classification)
        stuck_now = []
        stuck_infos = post["stuck"] if "stuck" in post else [x for x in (conn_stuck(c) for c in pool.connections) if x]
        for s_ in stuck_infos:
            parts = [p.strip() for p in s_.split(",")]
            stuck_now.append((parts[-2] if len(parts) >= 3 else s_, parts[-3] if len(parts) >= 3 else "-"))
        base["stuck"] = sorted({x[0] for x in stuck_now})
        base["stuck_proto"] = sorted({x[1] for x in stuck_now})
        if canc:
            vname = canc[0]["name"]
            vorigin = next(cs.split(":")[1] for i, cs in enumerate(self.callers) if f"c{i}" == vname)
            shared = scen.CONN_TYPES[self.ct]["http2"] and sum(1 for cs in self.callers if cs.split(":")[1] == vorigin) > 1
            base["shared_connecting"] = bool(shared)
            open_now = [t for t in w.net.transports if not t.closed and not getattr(t, "backend_cleaned", False)]
            openers = {op.task for op in w.net.ledger if op.kind.startswith("connect") and op.tr in open_now}
            base["orphan_opened_by_victim"] = vname in openers
        base["write_cancelled"] = any(op.kind == "write" and op.state == "cancelled" for op in w.net.ledger)
        base["uploads"] = min(2, sum(1 for cs in self.callers if cs.split(":")[0].startswith("up")))     # 2 = two or more flow-controlled uploads share the connection
        if self.trace:
            base["trace"] = True        # the requests carry a suspending trace callback (extra cancellation points inside Trace)
            vics = [c["name"] for c in w.callers if c.get("cancel_delivered")]
            base["trace_event"] = self._last_trace_event.get(vics[0]) if vics else None
        base["pool_timeout_race"] = any(isinstance(c["result"], tuple) and c["result"][0] == "exc" and isinstance(c["result"][1], httpcore.PoolTimeout)
                                        for c in w.callers)
        desc = f"ct={self.ct} callers={self.callers} N={self.max_connections} trigger={trig} site={base.get('site')} events={w.events_log[-25:]}"

        def viol(prop, kind, msg, **extra):
            ex.violations.append(Violation(f"{prop}.{kind}", f"{msg} | {desc}", dict(base, kind=kind, **extra)))

        results = {c["name"]: c["result"] for c in w.callers}
        for (name, kind, tok, opts) in specs:
            results.setdefault(name, None)
        # ---- per caller: C01 token equality, C15 documented exceptions
        for (name, kind, tok, opts) in specs:
            if "w" in opts:
                r = self._results_warm.get(name)
                if r is None or r[0] != "ok" or r[1] != (200, b"<" + tok.encode() + b">"):
                    viol("C01", "warm-up", f"warm-up caller {name} got {r}")
                results[name] = ("ok", None)
                continue
            r = results[name]
            c = next(c for c in w.callers if c["name"] == name)
            if r is None and w.deadlock is not None:
                continue        # still blocked: judged by the deadlock verdict below
            if r is None:
                if c["task"].cancelled():
                    r = ("cancelled-native", None)
                    results[name] = r
                    if c.get("cancel_delivered") is None:
                        # nobody cancelled this caller: a CancelledError that belongs to another task reached it (stored and re-raised)
                        viol("C15", "undocumented-exception", f"caller {name}, which nobody cancelled, ended with asyncio.CancelledError", leaked="asyncio.CancelledError")
                        viol("C12", "collateral-cancellation", f"caller {name}, which nobody cancelled, ended with a CancelledError that belongs to another caller's task")
                        viol("C08", "collateral-failure", f"caller {name} ended with a foreign CancelledError")
                else:
                    viol("C07", "no-result", f"caller {name} finished without result")
                    continue
            if r[0] == "ok":
                status, body = r[1]
                want = b"<" + tok.encode() + b">"
                if status != 200 or (body is not None and body != want):
                    viol("C01", "cross-talk", f"caller {name} (token {tok}) received status={status} body={body!r}, expected {want!r}")
            elif r[0] == "exc":
                e = r[1]
                if not documented_exception(e):
                    viol("C15", "undocumented-exception", f"caller {name}: {exc_class(e)}: {e}", leaked=exc_class(e))
                elif not inj and not canc and not peer_events and not isinstance(e, httpcore.PoolTimeout):
                    viol("C08", "collateral-failure", f"caller {name} failed with {exc_class(e)}: {e} although nothing was injected")
                    if kind.startswith("up"):
                        viol("C13", "upload-failed", f"upload {name} failed with {exc_class(e)}: {e} although the server only ever granted credit (no reset, no GOAWAY, "
                             f"no fault, no cancellation): the transfer was broken from the client's side")
                elif isinstance(e, httpcore.PoolTimeout) and not any(o.startswith("pt=") for o in opts):
                    viol("C16", "pool-timeout-without-timeout", f"caller {name} got PoolTimeout without a pool timeout")
                elif isinstance(e, httpcore.PoolTimeout):
                    pt = float(next(o for o in opts if o.startswith("pt="))[3:])
                    t0, t1 = self._times[name]
                    if abs((t1 - t0) - pt) > 1e-9:
                        viol("C16", "pool-timeout-instant", f"caller {name} raised PoolTimeout after {t1 - t0}s in the queue, pool timeout is {pt}s")
        if w.deadlock is not None:
            kind, info = w.deadlock
            # root-cause fact for the known SETTINGS wedge: a caller is blocked inside _receive_remote_settings_change
            base["settings_lowered"] = isinstance(info, list) and any("_receive_remote_settings_change" in b[1] for b in info)
            base["settings_zero"] = any(e.startswith("srv:settings0@") for e in w.events_log)
            # flow control: an upload blocked although, by the peer's books, its stream and connection windows are open
            starved_ok = False
            for hc in topo.all_h2_conns():
                for s_ in hc.blocked_uploads():
                    tk_ = (s_.token or b"").decode()
                    if tk_ in self._uploads and len(s_.body) == len(self._uploads[tk_]):
                        viol("C13", "end-stream-withheld", f"all {len(s_.body)} body bytes of stream {s_.id} were sent but the client does not end the stream (it waits for flow-control credit "
                             f"that an empty END_STREAM frame does not need); stream window {s_.recv_window}, connection window {hc.conn_recv_window}")
                    elif s_.recv_window > 0 and hc.conn_recv_window > 0:
                        base["reads_instead_of_sending"] = isinstance(info, list) and any(
                            "_wait_for_outgoing_flow" in b[1] and b[1].endswith("_read_incoming_data") for b in info)
                        viol("C13", "upload-stalled", f"upload on stream {s_.id} is stalled ({len(s_.body)} bytes sent) although the stream window is {s_.recv_window} and the connection window {hc.conn_recv_window}; "
                             f"blocked: {info}")
                    else:
                        starved_ok = True
            if kind == "livelock":
                for hc in topo.all_h2_conns():
                    if hc.blocked_uploads():
                        viol("C13", "upload-livelock", f"an upload never finishes and the client never blocks: the step horizon was exceeded with {len(hc.blocked_uploads())} upload(s) unfinished; "
                             f"windows by the peer's books: {[(x.id, x.recv_window) for x in hc.blocked_uploads()]}, connection {hc.conn_recv_window}")
            if kind == "deadlock" and starved_ok and not any(v.oracle.startswith("C13.") for v in ex.violations):
                # the peer withheld credit: blocking is the correct behaviour, not a deadlock of the client
                ex.outcome = f"blocked-by-peer-window:{sorted((k, (v[0] if v else None)) for k, v in results.items())}"
                return
            viol("C07", kind, f"callers blocked forever: {info}; pool={pool!r} {pool.connections}",
                 blocked_at=[b[1] for b in info] if isinstance(info, list) else None)
            if (canc or inj) and kind == "deadlock":
                viol("C05", "others-blocked", f"after the failed/cancelled request other callers are blocked forever: {info}; pool={pool!r} {pool.connections}")
            ex.outcome = f"{kind}:{sorted((k, (v[0] if v else None)) for k, v in results.items())}"
            return
        for hc in topo.all_h2_conns():
            for s_ in hc.streams.values():
                tk = (s_.token or b"").decode()
                refused_ = hc.goaway_sent is not None and s_.id > hc.goaway_sent[0]
                if tk in self._uploads and s_.end_stream and not refused_ and bytes(s_.body) != self._uploads[tk]:
                    viol("C03", "transmission-body", f"a transmission of request {tk} (stream {s_.id} on T{hc.tr.id}) carried body {bytes(s_.body)!r}, the caller's body is {self._uploads[tk]!r}",
                         resend=len({op.tr.id for op in w.net.ledger if op.kind == "write" and op.tr is not None and op.task == "c" + tk[1:]}) > 1)
                if tk in self._uploads and s_.end_stream and bytes(s_.body) != self._uploads[tk]:
                    viol("C13", "upload-body", f"stream {s_.id} (token {tk}) delivered {len(s_.body)} bytes {bytes(s_.body)[:40]!r}, the caller sent {len(self._uploads[tk])} bytes")
                if tk in self._uploads and s_.end_count > 1:
                    viol("C13", "end-stream-twice", f"stream {s_.id}: END_STREAM seen {s_.end_count} times")
        for c in topo.all_h1_conns():
            if c.reuse_violations:
                viol("C01", "reuse", f"{c.reuse_violations[:2]}")
            if c.parser.errors:
                viol("C03", "h1-peer-complaint", f"{c.parser.errors[:2]}")
        for c in topo.all_h2_conns():
            for msg in c.violations[:3]:
                if "GOAWAY" in msg:
                    viol("C14", "new-stream-after-goaway", msg)
                elif "concurrent" in msg or "limit" in msg:
                    viol("C12", "stream-limit", msg)
                elif "window" in msg or "MAX_FRAME_SIZE" in msg:
                    viol("C13", "flow-control", msg)
                else:
                    viol("C03", "h2-peer-complaint", msg)
                    if "HPACK" in msg or "decode" in msg.lower():
                        # the connection went on being used after its shared encoder state and the server's decoder had parted ways
                        viol("C01", "desync", f"a connection kept in service is out of step with its server: {msg}")
        # ---- C12: open streams by the peer's books at every new stream vs the limit the client had read
        for c in topo.all_h2_conns():
            for sid, nopen, lim in c.open_at_headers:
                eff = 1 if lim == "unset" else min(lim if lim is not None else 100, 100)
                if nopen > eff:
                    early_closed = [x.id for x in c.streams.values() if not x.closed and x.id != sid]
                    viol("C12", "stream-limit", f"stream {sid} opened as number {nopen} while the limit the client had read is {lim} (httpcore's own cap 100, 1 before SETTINGS); "
                         f"still open by the server's books: {early_closed}", limit=eff, abandoned=any(k == "early" for (_n, k, _t, _o) in specs))
                    break
        # ---- C12: every stream slot is given back (all callers have returned, nothing was cancelled or made to fail: no request is in flight)
        if not canc and not inj and w.deadlock is None:
            for free, limit, rep in post.get("h2_slots", []):
                if free != limit:
                    viol("C12", "stream-slot-leaked", f"no request is in flight, yet the connection's stream semaphore has {free} of {limit} slots free: {rep} "
                         f"(every leaked slot lowers the number of requests that can ever run concurrently on it)")
        # ---- C04
        if "list" in c04:
            viol("C04", "pool-list-overshoot", c04["list"])
        if "open" in c04:
            viol("C04", "open-stream-overshoot", c04["open"])
        if "c07" in c04:
            viol("C07", "serviceable-waiter", c04["c07"])
        if "c12" in c04:
            viol("C12", "request-not-written", c04["c12"])
        # ---- C05
        after = post["after"]
        if after["requests"] != 0 or "Requests: 0 active, 0 queued" not in after["repr"]:
            viol("C05", "request-still-counted", f"pool after all callers returned: {after['repr']}")
        timed_out = [n for n, r_ in results.items() if r_ and r_[0] == "exc" and isinstance(r_[1], httpcore.PoolTimeout)]
        if timed_out and after["requests"] != 0:
            viol("C16", "timed-out-request-not-forgotten", f"callers {timed_out} raised PoolTimeout, yet the pool still counts requests after all callers returned: {after['repr']}")
        if timed_out and any("CONNECTING" in c_ for c_ in after["conns"]):
            viol("C16", "timed-out-request-got-connection", f"callers {timed_out} raised PoolTimeout, yet a connection created for nobody is left in the pool: {after['conns']}",
                 pool_timeout_race=base.get("pool_timeout_race"))
        if post["stuck"]:
            st = post["stuck"][0]
            viol("C05", "connection-stuck", f"pooled connection neither idle, closed nor expired after all callers returned: {post['stuck']}",
                 state=[p.strip() for p in st.split(",")][-2] if "," in st else st)
        pr = post["probe"]
        if pr[0] != "ok":
            viol("C05", "probe-" + pr[0], f"capacity probe did not terminate normally: {pr}; pool after callers: {after['conns']}")
        else:
            # a proxy that refuses every CONNECT refuses the probe's requests too: that is not lost capacity
            refused_ok = not (200 <= self.connect_status <= 299)
            bad = [p for p in pr[1] if p[0] != "ok" and not (refused_ok and isinstance(p[1], httpcore.ProxyError))]
            if bad:
                viol("C05", "capacity-lost", f"probe of {self.max_connections} fresh origins failed: {[exc_class(p[1]) for p in bad]}; pool after callers: {after['conns']}",
                     probe_exc=exc_class(bad[0][1]))
        # ---- C06
        orphans = sorted(post["open"] - post["owned"])
        if orphans:
            viol("C06", "orphan-stream", f"open streams not owned by any pooled connection at quiescence: {[repr(w.net.transports[i]) for i in orphans]}")
        if post.get("open_end"):
            viol("C06", "open-after-pool-close", f"streams still open after pool.aclose(): {post['open_end']}")
        # ---- C14
        h2conns = {c.tr.id: c for c in topo.all_h2_conns()}
        for tok, sightings in topo.seen_tokens().items():
            if tok and len(sightings) > 1:
                allowed = False
                if len(sightings) == 2 and len(sightings[0]) == 3 and sightings[0][1] != sightings[1][1]:
                    first = h2conns.get(sightings[0][1])
                    if first is not None and first.goaway_sent is not None and sightings[0][2] > first.goaway_sent[0]:
                        allowed = True      # refused by GOAWAY: one transparent re-send on another connection
                if not allowed:
                    viol("C14", "request-sent-twice", f"token {tok!r} seen {len(sightings)} times: {sightings}")
        if w.loop.unhandled:
            viol("C15", "loop-exception", f"event loop exception handler called: {w.loop.unhandled[:2]}")
        ex.outcome = json.dumps({"r": sorted((k, v[0] if v[0] != "exc" else "exc:" + exc_class(v[1])) for k, v in results.items()),
                                 "pool": after["repr"].split("[")[1], "trig": trig, "c04": (c04["max_list"], c04["max_open"])})


# ---------------------------------------------------------------------------------- scenario matrices


_PROBE = [True]


def h2_slot_books(pool):
    """(free slots, limit, repr) of every pooled HTTP/2 connection, read from its stream semaphore; [] where the attributes are not there."""
    out = []
    for c in pool.connections:
        x = c
        for _ in range(5):
            if hasattr(x, "_max_streams_semaphore") and hasattr(x, "_max_streams"):
                sem = getattr(x._max_streams_semaphore, "_anyio_semaphore", None) or getattr(x._max_streams_semaphore, "_trio_semaphore", None)
                val = getattr(sem, "value", None)
                if isinstance(val, int) and not getattr(x, "_connection_error", False) and "CLOSED" not in repr(x):
                    out.append((val, x._max_streams, repr(x)))
                break
            x = getattr(x, "_connection", None)
            if x is None:
                break
    return out


def S(ct, callers, **kw):
    if not _PROBE[0]:
        kw.setdefault("probe", False)
    return make_spec(MOD, "ConcHarness", ct=ct, callers=callers, **kw)


def scenarios(pid, tier):
    """Scenario matrix per property (overlapping on purpose: every oracle runs on every scenario)."""
    out = []
    # the behavioural capacity probe (fresh requests to new origins after the callers) is C05/C06's oracle;
    # the other properties' scenarios just close the pool
    _PROBE[0] = pid in ("C05", "C06")
    h1 = ["h11", "h11tls", "fwd", "tunnel", "socks"]
    h2 = ["h2pk", "h2alpn"]
    quick = tier == "quick"
    if pid in ("C01", "C04", "C07"):
        # all event orders, no faults: 2-3 callers, same/different origins
        for ct in (["h11", "h2alpn", "h2exp11", "fwd", "tunnel"] if quick else list(scen.CONN_TYPES)):
            # a cold HTTP/2 connection spends ~100 loop iterations acquiring its stream semaphore; delivering other
            # completions "early" at each of them multiplies the space by 100 without reaching anything new, so early
            # delivery is explored on HTTP/1.1 types and on warm HTTP/2 connections (scenarios with ":w" callers)
            e = not (scen.CONN_TYPES[ct]["proto"] == "h2")
            out.append(S(ct, ["req:a", "req:a"], max_connections=1, early=e))
            out.append(S(ct, ["req:a", "req:b"], max_connections=1, early=e))
            out.append(S(ct, ["hold:a", "req:a", "req:b"], max_connections=2, early=e))
            out.append(S(ct, ["early:a", "req:a", "req:b:late"], max_connections=1, early=e))
            if scen.CONN_TYPES[ct]["proto"] == "h2":
                out.append(S(ct, ["req:a:w", "hold:a", "req:a", "req:b"], max_connections=2, early=True))
            if not quick:
                out.append(S(ct, ["req:a", "req:b", "req:c"], max_connections=2, early=e))
                out.append(S(ct, ["hold:a", "req:b", "req:a:late", "req:b:late"], max_connections=2, early=e))
        for fr in (["chunked", "close", "connclose", "http10", "interim"] if pid == "C01" else ["connclose"]):
            out.append(S("h11", ["req:a", "req:a", "req:b"], max_connections=1, framing=fr))
            out.append(S("h11", ["early:a", "req:a"], max_connections=1, framing=fr))
        for mk in ([0, 1] if pid != "C01" else [1]):
            out.append(S("h11", ["req:a", "req:b", "req:a:late"], max_connections=2, max_keepalive=mk))
        # with one fault / one cancellation (deviation bounded)
        for ct in (["h11", "h2alpn"] if quick else ["h11", "h11tls", "h2alpn", "h2exp11", "fwd", "tunnel", "socks"]):
            out.append(S(ct, ["req:a:v", "req:a"], max_connections=1, cancels=1, styles=["scope", "native"]))
            out.append(S(ct, ["req:a", "req:b"], max_connections=1, faults=1))
            # the victim is handed an established, re-used connection (cancellation at the checkpoints before it owns it)
            out.append(S(ct, ["req:a:w", "req:a:v", "req:a:late"], max_connections=1, cancels=1, styles=["scope", "native"]))
        if pid == "C01":
            # HTTP/2 multiplexing with the server interleaving HEADERS/DATA of different streams in every order,
            # on one connection and on two connections whose stream ids coincide
            for ct in (["h2pk"] if quick else ["h2pk", "h2alpn"]):
                out.append(S(ct, ["req:a:w", "req:a", "req:a"], max_connections=1, h2script={"frag": 2}, early=False))
                out.append(S(ct, ["req:a:w", "req:b:w", "req:a", "req:b"], max_connections=2, h2script={"frag": 1}, early=False))
                if not quick:
                    out.append(S(ct, ["req:a", "req:b"], max_connections=2, h2script={"frag": 2}, early=False))
                if not quick:
                    out.append(S(ct, ["req:a:w", "req:a", "req:a", "req:a"], max_connections=1, h2script={"frag": 1}, early=False))
                    out.append(S(ct, ["req:a:w", "early:a", "req:a"], max_connections=1, h2script={"frag": 2}, early=False))
        if pid == "C04":
            out.append(S("h11", ["req:a:w", "post:b", "req:c:late"], max_connections=2, faults=1, idle_close=1, early=False))
            for ct in (["h2pk"] if quick else ["h2pk", "h2alpn"]):
                out.append(S(ct, ["req:a:w", "req:a", "req:b"], max_connections=1, h2script={"rst": 1}, early=False))
                # graceful GOAWAY while a response is held open, new request in that window
                out.append(S(ct, ["hold:a", "req:a:late"], max_connections=1, h2script={"goaway": [1]}, early=False))
                if not quick:
                    out.append(S(ct, ["req:a:w", "hold:a", "req:a:late", "req:b:late"], max_connections=1, h2script={"goaway": [3]}, early=False))
        if pid == "C04":
            # the pool is closed while an idle connection is being closed and further requests arrive: the limit holds throughout
            out.append(S("h11", ["req:a:w", "closepool:a", "req:b:late", "req:c:late"], max_connections=1, probe=False))
        if pid in ("C04", "C07"):
            # establishment of a multiplexing-capable proxied connection cancelled at every point, then another request for the same origin
            out.append(S("socks-h2", ["req:a:v", "req:a:late"], max_connections=1, cancels=1, styles=["scope", "native"], early=False))
            out.append(S("socks-h2", ["req:a", "req:a"], max_connections=1, early=False))
            out.append(S("socks-h2", ["req:a", "req:a", "req:b"], max_connections=1, early=False))
        if pid == "C07":
            # a request the busy HTTP/2 connection could multiplex, queued behind one that cannot be served
            for ct in ["h2alpn", "h2pk"]:
                out.append(S(ct, ["hold:a", "req:b", "req:a"], max_connections=1, early=False))
                out.append(S(ct, ["req:a:w", "hold:a", "req:b", "req:a"], max_connections=1, early=True))
            out.append(S("h11", ["hold:a", "req:b:pt=5", "req:b"], max_connections=1))
            out.append(S("h2exp11", ["req:a", "req:a", "req:a"], max_connections=2))
            # a caller with a suspending trace callback is cancelled: the waiter behind it must still be served
            for ct in (["h11", "h2alpn"] if quick else ["h11", "h11tls", "h2alpn", "fwd", "tunnel", "socks"]):
                out.append(S(ct, ["req:a:v", "req:b"], max_connections=1, cancels=1, styles=["scope"], trace=True))
    if pid in ("C05", "C06"):
        cts = list(scen.CONN_TYPES)
        for ct in cts:
            out.append(S(ct, ["req:a:v"], max_connections=1, cancels=1, styles=["scope", "native"]))
            out.append(S(ct, ["req:a:v", "req:b"], max_connections=1, cancels=1, styles=["scope", "native"]))
            if scen.CONN_TYPES[ct]["http2"]:
                out.append(S(ct, ["req:a:v", "req:a"], max_connections=1, cancels=1, styles=["scope", "native"]))
            out.append(S(ct, ["post:a", "req:b"], max_connections=1, faults=1, fault_set="all" if not quick else "one"))
            # history: idle connections that expire together are retired in one pass while the victim is cancelled
            out.append(S(ct, ["req:a:w", "req:b:w", "req:c:v"], max_connections=3, keepalive_expiry=5.0, tick=6.0, cancels=1, styles=["scope", "native"]))
            out.append(S(ct, ["req:a:w", "req:b"], max_connections=2, keepalive_expiry=5.0, tick=6.0))
            if ct in ("h11", "h2alpn", "tunnel", "socks") or not quick:
                # the victim is handed an established, re-used connection
                out.append(S(ct, ["req:a:w", "req:a:v", "req:a:late"], max_connections=1, cancels=1, styles=["scope", "native"]))
            if scen.CONN_TYPES[ct]["proxy"] in ("http", "https") and scen.CONN_TYPES[ct]["scheme"] == "https":
                # proxy refuses the CONNECT: the tunnel connection closes the proxy connection itself
                out.append(S(ct, ["req:a:v"], max_connections=1, cancels=1, styles=["scope", "native"], connect_status=403))
                out.append(S(ct, ["req:a", "req:b"], max_connections=1, connect_status=403))
            if scen.CONN_TYPES[ct]["proto"] == "h1":
                # the server drops an idle keep-alive connection while another request is in flight and then fails:
                # the retiring pass runs on the failing request's exit path
                out.append(S(ct, ["req:a:w", "post:b"], max_connections=2, faults=1, idle_close=1, early=False))
            else:
                # a single stream is reset; the idle HTTP/2 connection is evicted for the queued other-origin request on the exit path
                out.append(S(ct, ["req:a:w", "req:a", "req:b"], max_connections=1, h2script={"rst": 1}, early=False))
            if ct in ("h11", "tunnel", "h2alpn") or not quick:
                # a trace callback that suspends: the callbacks of the clean-up path run inside the library's shields
                out.append(S(ct, ["req:a:v", "req:b"], max_connections=1, cancels=1, styles=["scope"], trace=True))
            if ct in ("h11", "h2alpn") or not quick:
                # the victim is the QUEUED request (cancelled while the connection ahead of it is being used / closed / evicted) ...
                out.append(S(ct, ["req:a", "req:b:v"], max_connections=1, cancels=1, styles=["scope", "native"]))
                # ... or is cancelled in its own code while it holds a streamed response open
                out.append(S(ct, ["hold:a:v", "req:b"], max_connections=1, cancels=1, styles=["scope", "native"]))
            if not quick:
                out.append(S(ct, ["early:a:v", "req:a"], max_connections=1, cancels=1, styles=["scope", "native"]))
    if pid == "C16":
        for ct in (["h11", "h2alpn"] if quick else ["h11", "h11tls", "h2alpn", "fwd", "tunnel", "socks"]):
            e = scen.CONN_TYPES[ct]["proto"] != "h2"      # cold HTTP/2: see the note in the C01/C04/C07 block
            out.append(S(ct, ["hold:a", "req:b:pt=5"], max_connections=1, early=e))
            out.append(S(ct, ["hold:a", "req:b:pt=5", "req:b:pt=7:late"], max_connections=1, early=e))
            out.append(S(ct, ["req:a:pt=0"], max_connections=1, early=e))
            out.append(S(ct, ["hold:a", "req:a:pt=0"], max_connections=1, early=e))
            out.append(S(ct, ["hold:a", "req:b:pt=5", "req:a:pt=3"], max_connections=2, early=e))
            out.append(S(ct, ["hold:a", "req:b:pt=5", "req:c:late"], max_connections=1, early=e, framing="connclose"))
    if pid == "C12":
        W = "req:a:w"
        base = ["h2pk"] if quick else ["h2pk", "h2alpn", "tunnel-h2"]
        for ct in base:
            # frame interleavings: HEADERS / DATA / END_STREAM of concurrent streams in every order
            out.append(S(ct, [W, "req:a", "req:a"], max_connections=1, h2script={"frag": 2}, early=False))
            out.append(S(ct, [W, "req:a", "req:a", "req:a"], max_connections=1, h2script={"frag": 1}, early=False))
            # limit changes at any time: lowering below the number in flight, raising
            out.append(S(ct, [W, "req:a", "req:a"], max_connections=1, h2cfg={"max_streams": 2}, h2script={"settings": [1]}, early=False))
            out.append(S(ct, [W, "req:a", "req:a", "req:a"], max_connections=1, h2cfg={"max_streams": 1}, h2script={"settings": [3]}, early=False))
            out.append(S(ct, [W, "req:a", "req:a"], max_connections=1, h2cfg={"max_streams": 2}, h2script={"settings": [1, 2]}, early=False))
            out.append(S(ct, [W, "req:a", "req:a"], max_connections=1, h2cfg={"max_streams": 2}, h2script={"settings": [0]}, early=False))
            if not quick:
                out.append(S(ct, [W, "req:a", "req:a", "req:a"], max_connections=1, h2cfg={"max_streams": 3}, h2script={"settings": [1]}, early=False))
                out.append(S(ct, [W, "req:a", "req:a", "req:a"], max_connections=1, h2cfg={"max_streams": 3}, h2script={"settings": [2]}, early=False))
            # resets and abandonment of individual streams
            out.append(S(ct, [W, "req:a", "req:a"] + ([] if quick else ["req:a"]), max_connections=1, h2cfg={"max_streams": 2}, h2script={"rst": 1}, early=False))
            out.append(S(ct, [W, "early:a", "req:a", "req:a"], max_connections=1, h2cfg={"max_streams": 2}, h2script={}, early=False))
            out.append(S(ct, [W, "early:a", "req:a"], max_connections=1, h2cfg={"max_streams": 1}, h2script={}, early=False))
            # before the first SETTINGS arrive: one stream only
            out.append(S(ct, ["req:a", "req:a", "req:a"], max_connections=1, h2cfg={"max_streams": None, "auto_settings": False}, h2script={"settings": [2]}, early=False))
            out.append(S(ct, [W, "req:a", "req:a"], max_connections=1, h2script={"ping": 1, "frag": 2}, early=False))
            if not quick:
                out.append(S(ct, [W, "req:a", "req:a", "req:a"], max_connections=1, h2script={"frag": 2}, early=False))
                out.append(S(ct, [W, "req:a", "req:a", "req:a", "req:a"], max_connections=1, h2cfg={"max_streams": 3}, h2script={"settings": [1], "rst": 1}, early=False))
                out.append(S(ct, [W, "req:a", "req:a"], max_connections=1, h2script={"frag": 2}, early=True))
    if pid == "C12":
        for ct in (["h2pk"] if quick else ["h2pk", "h2alpn", "tunnel-h2"]):
            # cold connection: further requests arriving at every point of the first request's connection initialisation
            # (one stream only until the server's SETTINGS have been read)
            out.append(S(ct, ["req:a", "req:a:late", "req:a:late"], max_connections=1, early=False))
            # the same with a server that answers only when the explorer says so (an auto-answering server has closed a stream
            # by its own books before the next HEADERS of the same write is parsed)
            out.append(S(ct, ["req:a", "req:a:late", "req:a:late"], max_connections=1, early=False, h2script={"frag": 1}))
    if pid == "C12":
        # multiplexing inside a CONNECT tunnel / behind SOCKS (the wrapper connections must not serialise the streams)
        for ct in (["tunnel-h2"] if quick else ["tunnel-h2", "socks-h2"]):
            out.append(S(ct, ["req:a:w", "req:a", "req:a"], max_connections=1, h2script={"frag": 1}, early=False))
        # the caller whose task happens to read on behalf of every stream is cancelled at each of its suspension points: whatever that
        # one stream suffers, the other runs to completion with its own response
        for ct in (["h2pk"] if quick else ["h2pk", "h2alpn"]):
            out.append(S(ct, ["req:a:w", "req:a:v", "req:a"], max_connections=1, cancels=1, styles=["scope", "native"],
                         h2script={"frag": 2}, early=False))
        # an upload parked on an exhausted window whose response HEADERS arrive early, credit later: the stream still runs to completion
        for ct in (["h2pk"] if quick else ["h2pk", "h2alpn"]):
            out.append(S(ct, ["req:a:w", "up9:a", "req:a"], max_connections=1, h2cfg={"window_policy": "manual", "initial_window": 4},
                         h2script={"wu": [["stream", 70000]], "wu_budget": 2, "early_hdr": True, "frag": 1}, early=False, horizon=300))
        # a streamed upload (two chunks) is reset by the server between its chunks, the reset being read on behalf of it by another stream's task
        for ct in (["h2pk"] if quick else ["h2pk", "h2alpn"]):
            out.append(S(ct, ["req:a:w", "ipost:a", "req:a"], max_connections=1, h2script={"rst": 1, "frag": 1}, early=False))
        # an upload parked on an exhausted window is reset by the server; with a stream limit of one the next request needs its slot
        for ct in (["h2pk"] if quick else ["h2pk", "h2alpn"]):
            out.append(S(ct, ["req:a:w", "up9:a", "req:a"], max_connections=1, h2cfg={"window_policy": "manual", "initial_window": 4, "max_streams": 1},
                         h2script={"rst": 1, "wu": [], "wu_budget": 0}, early=False))
        # a stream abandoned by a cancelled caller whose trace callback suspends must give its slot back (limit 1: the next one needs it)
        for ct in (["h2pk"] if quick else ["h2pk", "h2alpn"]):
            out.append(S(ct, ["req:a:w", "req:a:v", "req:a"], max_connections=1, cancels=1, styles=["scope"], trace=True,
                         h2cfg={"max_streams": 1}, early=False))
    if pid == "C03":
        # transparent re-sends: a stream refused by GOAWAY is sent again on another connection; both transmissions are decoded by the peer
        for ct in (["h2pk"] if quick else ["h2pk", "h2alpn"]):
            out.append(S(ct, ["req:a:w", "post:a", "req:a"], max_connections=2, h2script={"goaway": [1, 3]}, early=False))
            out.append(S(ct, ["req:a:w", "ipost:a", "req:a"], max_connections=2, h2script={"goaway": [1, 3]}, early=False))
            out.append(S(ct, ["req:a:w", "req:a", "ipost:a"], max_connections=2, h2script={"goaway": [1, 3]}, early=False))
        # requests racing onto a connection that turns out to be HTTP/1.1
        out.append(S("h2exp11", ["ipost:a", "ipost:a"], max_connections=2))
        # shared encoder state: one caller is cancelled at every suspension point (waiting for the stream semaphore, the write
        # lock, a pending write) while others use the same HTTP/2 connection; whatever the server then receives must still decode
        for ct in (["h2pk"] if quick else ["h2pk", "h2alpn"]):
            out.append(S(ct, ["req:a:w", "post:a:v", "req:a"], max_connections=1, cancels=1, styles=["scope", "native"]))
            if not quick:
                out.append(S(ct, ["req:a:w", "req:a", "post:a:v", "req:a:late"], max_connections=1, cancels=1, styles=["scope", "native"]))
                out.append(S(ct, ["req:a:w", "post:a", "req:a:v", "req:a:late"], max_connections=1, cancels=1, styles=["scope", "native"]))
    if pid == "C02":
        # HTTP/2: DATA of one stream arriving in reads made on behalf of another (multiplexed responses in two
        # fragments each; a download's DATA arriving while an upload waits for flow-control credit)
        for ct in (["h2pk"] if quick else ["h2pk", "h2alpn"]):
            out.append(S(ct, ["req:a:w", "req:a", "req:a"], max_connections=1, h2script={"frag": 2}, early=False))
            out.append(S(ct, ["req:a:w", "up9:a", "req:a"], max_connections=1, h2cfg={"window_policy": "manual", "initial_window": 4},
                         h2script={"wu": [["stream", 70000]], "wu_budget": 1, "frag": 2}, early=False))
    if pid == "C02":
        # a stream reset at every point of its response, with NO_ERROR and with CANCEL: a body cut short is an error, never a shorter body
        for ct in (["h2pk"] if quick else ["h2pk", "h2alpn"]):
            for code in (0, 8):
                out.append(S(ct, ["req:a:w", "req:a"], max_connections=1, h2script={"frag": 2, "rst": 1, "rst_code": code}, early=False))
    if pid == "C02":
        # the task that reads on behalf of every stream is cancelled at each of its suspension points: the others' bodies must stay whole
        for ct in (["h2pk"] if quick else ["h2pk", "h2alpn"]):
            out.append(S(ct, ["req:a:w", "req:a:v", "req:a"], max_connections=1, cancels=1, styles=["scope"] if quick else ["scope", "native"],
                         h2script={"frag": 2}, early=False))
    if pid == "C13":
        W = "req:a:w"
        manual = {"window_policy": "manual"}
        for ct in (["h2pk"] if quick else ["h2pk", "h2alpn"]):
            # one upload against a tiny stream window, WINDOW_UPDATE increments chosen by the explorer
            for iw, size in ((1, 3), (7, 17), (7, 8)):
                out.append(S(ct, [W, f"up{size}:a"], max_connections=1, h2cfg=dict(manual, initial_window=iw),
                             h2script={"wu": [["stream", 1], ["stream", 5], ["stream", 70000]], "wu_budget": 4}, early=False))
            # two uploads share the connection; stream-only / connection-only credit in every order
            out.append(S(ct, [W, "up9:a", "up9:a"], max_connections=1, h2cfg=dict(manual, initial_window=4),
                         h2script={"wu": [["stream", 70000]], "wu_budget": 2}, early=False))
            out.append(S(ct, [W, "up9:a", "up9:a"], max_connections=1, h2cfg=dict(manual, initial_window=4),
                         h2script={"wu": [["stream", 3], ["stream", 70000]], "wu_budget": 3}, early=False))
            # the server lowers MAX_FRAME_SIZE while a large upload is parked on an exhausted window (and raises it in another run)
            out.append(S(ct, [W, "up60000:a"], max_connections=1, h2cfg=dict(manual, initial_window=20000, max_frame=32768),
                         h2script={"wu": [["stream", 70000], ["conn", 70000]], "wu_budget": 2, "mfs": [16384]}, early=False))
            # a flow-control-stalled upload on a full pool while a request for another origin arrives: it waits, the upload finishes
            out.append(S(ct, [W, "up9:a", "req:b:late"], max_connections=1, h2cfg=dict(manual, initial_window=4),
                         h2script={"wu": [["stream", 70000]], "wu_budget": 1}, early=False))
            # body size exactly equal to the credit granted: END_STREAM must follow without further credit
            out.append(S(ct, [W, "up4:a"], max_connections=1, h2cfg=dict(manual, initial_window=4), h2script={"wu": [], "wu_budget": 0}, early=False))
            out.append(S(ct, [W, "up9:a"], max_connections=1, h2cfg=dict(manual, initial_window=4), h2script={"wu": [["stream", 5]], "wu_budget": 1}, early=False))
            # early response HEADERS while the upload is still blocked, credit arriving late
            out.append(S(ct, [W, "up9:a"], max_connections=1, h2cfg=dict(manual, initial_window=4),
                         h2script={"wu": [["stream", 70000]], "wu_budget": 2, "early_hdr": True}, early=False, horizon=300))
            # a download's DATA arriving while an upload waits for credit
            out.append(S(ct, [W, "up9:a", "req:a"], max_connections=1, h2cfg=dict(manual, initial_window=4),
                         h2script={"wu": [["stream", 70000]], "wu_budget": 1, "frag": 2}, early=False))
            if not quick:
                out.append(S(ct, [W, "up9:a", "up9:a", "req:a"], max_connections=1, h2cfg=dict(manual, initial_window=4),
                             h2script={"wu": [["stream", 3], ["stream", 70000]], "wu_budget": 4, "frag": 2}, early=False))
                out.append(S(ct, [W, "up17:a"], max_connections=1, h2cfg=dict(manual, initial_window=7),
                             h2script={"wu": [["stream", 1], ["stream", 5], ["stream", 70000]], "wu_budget": 5, "settings": []}, early=True))
    if pid == "C15":
        # peer-initiated HTTP/2 events against two streams (GOAWAY contradicting an answered stream, RST_STREAM)
        out.append(S("h2pk", ["req:a", "req:a"], max_connections=2, h2script={"goaway": [1, 3], "rst": 1}, early=False))
        out.append(S("h2pk", ["post:a", "req:a"], max_connections=2, faults=1, fault_set="all"))
        out.append(S("h2alpn", ["req:a:w", "post:a", "req:a"], max_connections=2, faults=1, fault_set="all", early=False))
        # the pool is closed while one request is in flight and another is queued: documented errors only, and nobody hangs
        out.append(S("h11", ["hold:a", "req:b:pt=5", "closepool:a:late"], max_connections=1, probe=False))
        out.append(S("h11", ["hold:a", "req:b", "closepool:a:late"], max_connections=1, probe=False))
    if pid == "C20":
        # failures after establishment are never retried - also not through the pool's "connection not available" re-send path:
        # GOAWAY naming the request's own stream (or a later one) as processed must surface as an error, written once
        for ct in (["h2pk"] if quick else ["h2pk", "h2alpn"]):
            out.append(S(ct, ["req:a"], max_connections=2, h2script={"goaway": [1, 3]}, early=False))
            out.append(S(ct, ["req:a:w", "post:a"], max_connections=2, h2script={"goaway": [3, 5]}, early=False))
    if pid == "C14":
        for ct in ["h11", "h2alpn", "h2exp11", "h2pk"]:
            out.append(S(ct, ["post:a", "req:a"], max_connections=2, faults=1, fault_set="all"))
            out.append(S(ct, ["req:a", "req:a", "req:a"], max_connections=1))
        for ct in ["h2pk", "h2alpn"]:
            # warm connection (server SETTINGS already read): real multiplexing of two requests with one fault anywhere
            out.append(S(ct, ["req:a:w", "post:a", "req:a"], max_connections=2, faults=1, fault_set="all", early=quick is False))
        for ct in (["h2pk"] if quick else ["h2pk", "h2alpn"]):
            ids = [0, 1, 3, 5, 2 ** 31 - 1]
            out.append(S(ct, ["req:a"], max_connections=2, h2script={"goaway": ids}, early=False))
            out.append(S(ct, ["req:a", "req:a"], max_connections=2, h2script={"goaway": ids}, early=False))
            out.append(S(ct, ["post:a", "req:a"], max_connections=2, h2script={"goaway": [1, 3], "rst": 1}, early=False))
            out.append(S(ct, ["req:a:w", "post:a", "req:a"], max_connections=2, h2script={"goaway": [3, 5, 7]}, early=False))
            # a request WITH a body is refused (last-stream-id below its stream) after the body was sent: the re-send carries the body again
            out.append(S(ct, ["req:a:w", "post:a", "req:a"], max_connections=2, h2script={"goaway": [1, 3]}, early=False))
            # the other stream is already reading when the upload's HEADERS write is still pending (write lock order)
            out.append(S(ct, ["req:a:w", "req:a", "post:a"], max_connections=2, h2script={"goaway": [3, 5, 7]}, early=False))
            if not quick:
                out.append(S(ct, ["req:a", "req:a", "req:a:late"], max_connections=2, h2script={"goaway": ids}, early=False))
                out.append(S(ct, ["req:a", "req:a"], max_connections=2, h2script={"goaway": ids, "frag": 2}))
    return out


BOUNDS = {"quick": 2, "thorough": 3}


def run_for(pid, tier, seed, workers, only):
    from . import common
    specs = common.filt(scenarios(pid, tier), only)
    if not specs:
        return engine.Stats(bound=None), {"scenarios": 0}
    per = []

    def on_result(spec, st):
        per.append({"scenario": spec[2][:200], "states": st.states, "executions": st.evaluations, "exhaustive": st.exhaustive,
                    "caps": st.caps, "outcomes": len(st.outcomes)})
    def weight(spec):
        d = json.loads(spec[2])
        n = sum(1 for c in d["callers"] if ":w" not in c)
        return n ** 3 * (4 if d.get("h2script") else 1) * (2 if d.get("early", True) else 1) * (3 if d.get("cancels") else 1) * (2 if "h2" in d["ct"] else 1)
    st = engine.explore_many(specs, workers=workers, weight=weight, bound=None, seed=seed, max_violations=60,
                             max_execs=60000 if tier == "quick" else 600000, max_seconds=120 if tier == "quick" else 900, on_result=on_result)
    info = {"scenarios": len(specs), "executions": st.evaluations, "states": st.states, "transitions": st.transitions,
            "exhaustive_scenarios": sum(1 for p in per if p["exhaustive"]), "capped_scenarios": [p for p in per if not p["exhaustive"]][:10],
            "per_scenario_states": sorted(p["states"] for p in per),
            "world": "virtual asyncio loop, real anyio primitives; ready queue FIFO never reordered; choices = arrivals, I/O completions (incl. early), faults, timers, cancellations (scope and native), releases"}
    return st, info
