from __future__ import annotations

from .. import engine, evidence


def collect(st, prefixes):
    """Flatten engine violation records, keeping only oracles of the given property prefixes."""
    out = []
    for v in st.violations:
        for x in v["violations"]:
            if any(x["oracle"].startswith(p + ".") for p in prefixes):
                out.append({"oracle": x["oracle"], "message": x["message"], "signature": x["signature"], "spec": v["spec"],
                            "choices": v["choices"], "labels": v["labels"], "trace": v["trace"][-40:]})
    return out


def foreign(st, prefixes):
    """Count of violations of other properties' oracles seen by the same exploration (reported, not judged here)."""
    n = {}
    for v in st.violations:
        for x in v["violations"]:
            if not any(x["oracle"].startswith(p + ".") for p in prefixes):
                n[x["oracle"]] = n.get(x["oracle"], 0) + 1
    return n


def filt(specs, only):
    if not only:
        return specs
    return [s for s in specs if only in s[1] + s[2]]
