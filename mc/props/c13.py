"""C13 — HTTP/2 flow control is obeyed and never starves a transfer.

(1) sequential matrix: upload sizes around multiples of the effective window x server
    INITIAL_WINDOW_SIZE {1,7,65535} x MAX_FRAME_SIZE x body chunkings, both variants,
    against the peer's own window books (auto credit policy);
(2) downloads: one 20 MiB response (beyond the client's 2^24 credit) and 1100 responses of
    16 KiB on one connection (connection-level credit must be returned for every frame);
(3) asyncio world: WINDOW_UPDATE schedules (tiny increments, stream-only, late) chosen by the
    explorer for one and two uploads sharing a connection; an upload stalled while both
    windows are open is a violation, one starved by the peer is not."""
from __future__ import annotations

import multiprocessing as mp
import os

import httpcore

from .. import engine, evidence, scen
from ..engine import Chooser
from ..seqworld import SeqWorld, exc_class
from . import common, conc


class _AIter:
    def __init__(self, chunks):
        self.chunks = chunks

    def __aiter__(self):
        async def gen():
            for c in self.chunks:
                yield c
        return gen()


def run_upload(variant, iw, mf, size, chunking):
    cfg = {"initial_window": iw, "max_frame": mf, "max_streams": 100}
    topo = scen.Topology(scen.CONN_TYPES["h2pk"], h2cfg=cfg)
    w = SeqWorld(Chooser([]), topo.router, variant=variant)
    w.env.fp = None
    pool = scen.make_pool("h2pk", w.backend, variant)
    payload = bytes((i * 7 + 3) % 251 for i in range(size))
    if chunking == "bytes":
        mk = lambda: payload
    elif chunking == "split":
        mid = max(1, size // 2)
        parts = [payload[:1], b"", payload[1:mid], payload[mid:]]
        mk = (lambda: iter(list(parts))) if variant == "sync" else (lambda: _AIter(list(parts)))
    hdrs = [("Content-Length", str(size))] if chunking != "bytes" else []
    url = scen.url_for("h2pk", token="up")
    if variant == "sync":
        def prog():
            r = pool.request("POST", url, headers=hdrs, content=mk())
            pool.close()
            return (r.status, r.content)
        res = w.run(sync_fn=prog)
    else:
        async def aprog():
            r = await pool.request("POST", url, headers=hdrs, content=mk())
            await pool.aclose()
            return (r.status, r.content)
        res = w.run(async_fn=aprog)
    out = []
    case = {"kind": "upload", "variant": variant, "iw": iw, "mf": mf, "size": size, "chunking": chunking}

    def bad(kind, msg):
        out.append({"oracle": "C13." + kind, "message": f"{msg} | upload variant={variant} initial_window={iw} max_frame={mf} size={size} chunking={chunking}",
                    "signature": {"harness": "flow", "kind": kind, "dir": "upload"}, "case": case})
    conns = topo.all_h2_conns()
    if res[0] != "ok":
        bad("upload-" + res[0], f"upload did not complete: {res[0]} {exc_class(res[1]) if res[0] == 'exc' else res[1] if len(res) > 1 else ''}")
        return out, ("fail", iw, size > iw)
    for c in conns:
        for v in c.violations:
            bad("window-overdrawn" if "window" in v else "frame-size" if "MAX_FRAME" in v else "peer-complaint", v)
        for s in c.streams.values():
            if bytes(s.body) != payload:
                bad("upload-body", f"peer reassembled {len(s.body)} bytes, caller sent {size}")
            if s.end_count != 1:
                bad("end-stream", f"END_STREAM seen {s.end_count} times")
            if s.data_frames and max(s.data_frames) > min(mf, 16384 if mf is None else mf):
                bad("frame-size", f"DATA frame of {max(s.data_frames)} bytes, MAX_FRAME_SIZE {mf}")
    nfr = sum(len(s.data_frames) for c in conns for s in c.streams.values())
    return out, ("ok", iw, mf, "multi-frame" if nfr > 2 else "few", chunking)


def run_download(variant, nresp, size, frame_size):
    cfg = {"max_streams": 100, "body": (lambda tok: b"\xab" * size), "data_frame_size": frame_size}
    topo = scen.Topology(scen.CONN_TYPES["h2pk"], h2cfg=cfg)
    w = SeqWorld(Chooser([]), topo.router, variant=variant)
    w.env.fp = None
    pool = scen.make_pool("h2pk", w.backend, variant)
    got = []
    if variant == "sync":
        def prog():
            for i in range(nresp):
                with pool.stream("GET", scen.url_for("h2pk", token=f"d{i}")) as r:
                    n = 0
                    for chunk in r.iter_stream():
                        n += len(chunk)
                    got.append(n)
            pool.close()
        res = w.run(sync_fn=prog)
    else:
        async def aprog():
            for i in range(nresp):
                async with pool.stream("GET", scen.url_for("h2pk", token=f"d{i}")) as r:
                    n = 0
                    async for chunk in r.aiter_stream():
                        n += len(chunk)
                    got.append(n)
            await pool.aclose()
        res = w.run(async_fn=aprog)
    out = []
    case = {"kind": "download", "variant": variant, "nresp": nresp, "size": size, "frame_size": frame_size}

    def bad(kind, msg):
        out.append({"oracle": "C13." + kind, "message": f"{msg} | download variant={variant} responses={nresp} size={size} frame={frame_size}",
                    "signature": {"harness": "flow", "kind": kind, "dir": "download"}, "case": case})
    conns = topo.all_h2_conns()
    c = conns[0] if conns else None
    if res[0] != "ok":
        extra = ""
        if c is not None:
            extra = f"; server's view: connection window {c.conn_send_window}, connection credit returned {c.conn_credit_returned}, responses completed {len(got)}"
        bad("download-" + res[0], f"download did not complete ({res[0]}: {exc_class(res[1]) if res[0] == 'exc' else res[1] if len(res) > 1 else ''}){extra}")
        return out, ("fail", nresp)
    if got != [size] * nresp:
        bad("download-size", f"received sizes {got[:5]}.. expected {size}")
    total = size * nresp
    initial = 65535 + 2 ** 24
    if c is not None and total > initial and c.conn_credit_returned - 2 ** 24 < total - initial:
        bad("credit", f"{total} bytes consumed but only {c.conn_credit_returned} connection credit returned")
    return out, ("ok", nresp > 1, size > 2 ** 24)


def _job(args):
    kind = args[0]
    if kind == "upload":
        return run_upload(*args[1:])
    return run_download(*args[1:])


def replay_case(case):
    if case["kind"] == "upload":
        return run_upload(case["variant"], case["iw"], case["mf"], case["size"], case["chunking"])[0]
    return run_download(case["variant"], case["nresp"], case["size"], case["frame_size"])[0]


def matrix(tier):
    jobs = []
    for variant in ("sync", "async"):
        for iw in (1, 7, 65535):
            sizes = {1: [0, 1, 2, 5], 7: [0, 1, 6, 7, 8, 17], 65535: [65534, 65535, 65536, 131073]}[iw]
            if tier == "thorough" and iw == 65535:
                sizes += [200000]
            for mf in ((16384, 32768) if iw == 65535 else (16384,)):
                for size in sizes:
                    for chunking in ("bytes", "split"):
                        if size == 0 and chunking == "split":
                            continue
                        jobs.append(("upload", variant, iw, mf, size, chunking))
        jobs.append(("download", variant, 1, 20 * 2 ** 20, 16384))
        jobs.append(("download", variant, 1100, 16384, 16384))
        jobs.append(("download", variant, 3, 100000, 1000))
        if tier == "thorough":
            jobs.append(("download", variant, 1, 40 * 2 ** 20, 16384))
            jobs.append(("download", variant, 3000, 8192, 4096))
    return jobs


def check(tier="quick", seed=0, workers=None, only=None):
    jobs = matrix(tier) if not only else []
    viols, classes, n = [], set(), 0
    if jobs:
        with mp.get_context("fork").Pool(workers or min(16, os.cpu_count() or 1)) as pool:
            for v, cl in pool.imap(_job, jobs):
                n += 1
                viols += v
                classes.add(cl)
    cst, cinfo = conc.run_for("C13", tier, seed, workers, only)
    viols += common.collect(cst, ("C13",))
    # the sync backend's send loop under short writes: what the peer decodes must be the caller's upload
    from . import backends
    bst, binfo = backends.run_for(tier, seed, workers, None, purpose="uploads") if not only else (engine.Stats(bound=2), {})
    viols += common.collect(bst, ("C13",))
    cst.merge_from(bst)
    cov = evidence.stats_coverage(
        cst,
        rule=("(1)+(2) full matrix of upload sizes around window multiples x INITIAL_WINDOW_SIZE x MAX_FRAME_SIZE x chunking x variant and the download runs, judged by the peer's window books; "
              "(3) all orders of WINDOW_UPDATE events (increments 1/5/large, budgets 2-5) and I/O completions for one and two uploads on one connection, state-merged; "
              "non-trivial = outcome class of an execution with a WINDOW_UPDATE event or a multi-frame transfer"),
        extra={"matrix_runs": n, "matrix_classes": sorted(map(str, classes)), "concurrent": cinfo})
    cov["evaluations"] += n
    cov["distinct_nontrivial"] += len(classes)
    return {"level": "model_checking", "coverage": cov, "violations": viols,
            "assumptions": ["the peer accounts for stream and connection windows itself and never sends beyond the client's advertised windows",
                            "an upload that waits while the peer's books show a closed window is correct behaviour (blocked-by-peer), not a violation"]}
