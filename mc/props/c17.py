"""C17 — upgrade / CONNECT hand-over loses no bytes.

W-S explicit-state search: the chooser jointly decides the segmentation of
head || post-head data (every cut, merged) and the caller's max_bytes sequence
(each read picks from {1,2,3,5,65536}); for 101 and for CONNECT 2xx, sync and async;
plus the tunnel proxy's own CONNECT under all cuts of the proxy's reply."""
from __future__ import annotations

import httpcore

from .. import engine, evidence, scen
from ..engine import Execution, Violation, make_spec
from ..seqworld import SeqWorld, exc_class
from ..simnet.http1 import ScriptConn, H1Server, make_echo_responder
from . import common

MOD = "mc.props.c17"
MAXB = [65536, 1, 2, 3, 5]


class _TwoStep(ScriptConn):
    """Answers the first request with an ordinary keep-alive response and the second one with the script."""

    def __init__(self, first: bytes, script: bytes):
        super().__init__(script, eof=False, when="complete")
        self.first = first
        self.n = 0

    def _mc_state(self):
        return ("twostep", self.n) + tuple(super()._mc_state())

    def on_data(self, tr, data):
        self.got += data
        for ev, req in self.parser.feed(data):
            if ev == "complete":
                self.n += 1
                if self.n == 1:
                    tr.send(self.first)
                else:
                    self._go(tr)


class UpgradeHarness:
    horizon = 4000

    def __init__(self, variant, mode, data, status=None, prelude="none", reused=False, interim=0, neighbours=0):
        self.neighbours = neighbours      # while the caller holds the stream, this many requests to other origins complete on a pool that may keep
                                          # only ONE idle connection: the surplus idle ones are retired, the switched (active) one is not touched
        self.interim = interim            # number of interim 1xx responses (103, then 100) the server sends before the switching response
        self.reused = reused              # the switch happens on a RE-USED keep-alive connection of a pool with keepalive_expiry; while the
                                          # caller holds the stream, time passes beyond that expiry and the pool serves another request
        self.prelude = prelude            # what the caller does with the (empty) response body before touching the stream: none | read | iter
        self.variant = variant
        self.mode = mode                  # "101" | "connect"
        self.data = data.encode()
        self.status = status or (101 if mode == "101" else 200)

    def run(self, chooser) -> Execution:
        if self.mode == "101":
            head = b"HTTP/1.1 101 \r\nUpgrade: x\r\n\r\n"
        else:
            head = b"HTTP/1.1 %d OK\r\n\r\n" % self.status
        head = b"".join([b"HTTP/1.1 103 Early Hints\r\nLink: </s>\r\n\r\n", b"HTTP/1.1 100 Continue\r\n\r\n"][:self.interim]) + head
        if self.reused:
            script = _TwoStep(b"HTTP/1.1 200 OK\r\nContent-Length: 7\r\n\r\n<first>", head + self.data)
        else:
            script = ScriptConn(head + self.data, eof=False, when="complete")
        later = H1Server(make_echo_responder("cl"))
        made = []

        def router(kind, host, port):
            if not made:
                made.append(script)
                return script
            return later.new_conn()
        collected = bytearray()     # joined: different chunkings of the same bytes have the same future
        w = SeqWorld(chooser, router, variant=self.variant, merge_roots=[collected], segment=True, faults=0)
        cls = httpcore.ConnectionPool if self.variant == "sync" else httpcore.AsyncConnectionPool
        pool = cls(network_backend=w.backend, **({"keepalive_expiry": 5.0} if self.reused else {}),
                   **({"max_connections": 4, "max_keepalive_connections": 1} if self.neighbours else {}))
        w.roots.append(pool)
        n = len(self.data)
        info = {}
        if self.mode == "101":
            method, url, hdrs = "GET", "http://a.example/t/up", [("Upgrade", "x"), ("Connection", "upgrade")]
        else:
            method, url, hdrs = "CONNECT", httpcore.URL(scheme=b"http", host=b"a.example", port=None, target=b"dest.example:443"), []

        def pick():
            return MAXB[chooser.choose(len(MAXB), "max_bytes", cost=0, fp=w._fp)]

        if self.variant == "sync":
            def prog():
                if self.reused:
                    r0 = pool.request("GET", "http://a.example/t/first")
                    info["first"] = (r0.status, r0.content)
                with pool.stream(method, url, headers=hdrs) as r:
                    info["status"] = r.status
                    if self.reused:
                        w.env.time += 6.0
                        r1 = pool.request("GET", "http://b.example/t/other")
                        info["other"] = (r1.status, r1.content)
                    for h_ in "bcd"[:self.neighbours]:
                        rn = pool.request("GET", f"http://{h_}.example/t/nb{h_}")
                        info.setdefault("neighbours", []).append((rn.status, rn.content))
                    if self.prelude == "read":
                        info["body"] = r.read()
                    elif self.prelude == "iter":
                        info["body"] = b"".join(r.iter_stream())
                    ns = r.extensions["network_stream"]
                    while len(collected) < n:
                        mb = pick()
                        chunk = ns.read(max_bytes=mb)
                        info.setdefault("reads", []).append((mb, len(chunk)))
                        if len(chunk) > mb:
                            info["overlong"] = (mb, chunk)
                        if not chunk:
                            break
                        collected.extend(chunk)
                    ns.write(b"client-says-hi")
                    info["in_pool_during"] = [repr(c) for c in pool.connections]
                info["in_pool_after"] = [repr(c) for c in pool.connections if "a.example" in repr(c)]
                info["open_after"] = [t.id for t in w.net.open_transports()]
                w.env.segment = False
                r2 = pool.request("GET", "http://a.example/t/next")
                info["next"] = (r2.status, r2.content)
                pool.close()
            res = w.run(sync_fn=prog)
        else:
            async def aprog():
                if self.reused:
                    r0 = await pool.request("GET", "http://a.example/t/first")
                    info["first"] = (r0.status, r0.content)
                async with pool.stream(method, url, headers=hdrs) as r:
                    info["status"] = r.status
                    if self.reused:
                        w.env.time += 6.0
                        r1 = await pool.request("GET", "http://b.example/t/other")
                        info["other"] = (r1.status, r1.content)
                    for h_ in "bcd"[:self.neighbours]:
                        rn = await pool.request("GET", f"http://{h_}.example/t/nb{h_}")
                        info.setdefault("neighbours", []).append((rn.status, rn.content))
                    if self.prelude == "read":
                        info["body"] = await r.aread()
                    elif self.prelude == "iter":
                        info["body"] = b"".join([c async for c in r.aiter_stream()])
                    ns = r.extensions["network_stream"]
                    while len(collected) < n:
                        mb = pick()
                        chunk = await ns.read(max_bytes=mb)
                        info.setdefault("reads", []).append((mb, len(chunk)))
                        if len(chunk) > mb:
                            info["overlong"] = (mb, chunk)
                        if not chunk:
                            break
                        collected.extend(chunk)
                    await ns.write(b"client-says-hi")
                    info["in_pool_during"] = [repr(c) for c in pool.connections]
                info["in_pool_after"] = [repr(c) for c in pool.connections if "a.example" in repr(c)]
                info["open_after"] = [t.id for t in w.net.open_transports()]
                w.env.segment = False
                r2 = await pool.request("GET", "http://a.example/t/next")
                info["next"] = (r2.status, r2.content)
                await pool.aclose()
            res = w.run(async_fn=aprog)
        ex = Execution()
        ex.notes["unmergeable"] = sorted(w.unmergeable)
        ex.trace = [op.rec() for op in w.net.ledger if op.kind in ("read", "write", "close", "connect_tcp")] + [{"reads": info.get("reads")}]
        sig = {"harness": "upgrade", "mode": self.mode}
        if self.reused:
            sig["reused"] = True
        if self.prelude != "none":
            sig["prelude"] = self.prelude
        got = bytes(collected)

        def viol(kind, msg):
            ex.violations.append(Violation("C17." + kind, f"{msg} | mode={self.mode} status={self.status} prelude={self.prelude} variant={self.variant} data={self.data!r} "
                                           f"caller reads (max_bytes, returned)={info.get('reads')} network reads={[len(o.result) for o in w.net.ledger if o.kind == 'read' and isinstance(o.result, bytes)]}",
                                           dict(sig, kind=kind)))
        ex.nontrivial = len(info.get("reads", [])) > 1 or sum(1 for o in w.net.ledger if o.kind == "read") > 2
        if res[0] == "hang":
            viol("bytes-lost", f"caller still waits for data after receiving {got!r} of {self.data!r}: bytes were lost")
            ex.outcome = "hang"
            return ex
        if res[0] != "ok":
            viol("error", f"{res[0]}: {exc_class(res[1]) if res[0] == 'exc' else ''} {res[1] if len(res) > 1 else ''}")
            ex.outcome = res[0]
            return ex
        if info.get("status") != self.status:
            viol("status", f"status {info.get('status')}")
        if info.get("body", b"") != b"":
            viol("body", f"the response body of a switched-protocol response is {info.get('body')!r}: bytes of the new protocol were consumed as body")
        if got != self.data:
            viol("bytes-differ", f"upgraded stream yielded {got!r}, the server sent {self.data!r} after the head")
        if "overlong" in info:
            viol("max-bytes", f"read(max_bytes={info['overlong'][0]}) returned {len(info['overlong'][1])} bytes")
        if not bytes(script.got).endswith(b"client-says-hi"):
            viol("write-through", f"bytes written on the upgraded stream did not reach the peer unchanged: {bytes(script.got)[-30:]!r}")
        if info.get("in_pool_after"):
            viol("returned-to-pool", f"switched-protocol connection still pooled after the response was closed: {info['in_pool_after']}")
        if 0 in info.get("open_after", []):
            viol("not-closed", "switched-protocol stream still open after the response was closed")
        if info.get("next") != (200, b"<next>"):
            viol("next-request", f"following request gave {info.get('next')}")
        if self.reused and (info.get("first") != (200, b"<first>") or info.get("other") != (200, b"<other>")):
            viol("neighbour-requests", f"the ordinary requests around the switch gave first={info.get('first')} other={info.get('other')}")
        if self.neighbours and info.get("neighbours") != [(200, f"<nb{h_}>".encode()) for h_ in "bcd"[:self.neighbours]]:
            viol("neighbour-requests", f"the requests to other origins made while the stream was held gave {info.get('neighbours')}")
        if len(w.net.transports) != (3 if self.reused else 2) + self.neighbours:
            viol("reused", f"{len(w.net.transports)} streams opened; the following request must open a new connection")
        ex.outcome = f"ok:{len(got)}"
        return ex


class TunnelSegHarness:
    """Request through the tunnelling proxy; every cut of every read (CONNECT reply, origin response)."""
    horizon = 3000

    def __init__(self, variant, ct="tunnel"):
        self.variant = variant
        self.ct = ct

    def run(self, chooser) -> Execution:
        topo = scen.Topology(scen.CONN_TYPES[self.ct])
        w = SeqWorld(chooser, topo.router, variant=self.variant, segment=True, faults=0)
        pool = scen.make_pool(self.ct, w.backend, self.variant)
        w.roots.append(pool)
        url = scen.url_for(self.ct, token="viaTunnel")
        if self.variant == "sync":
            def prog():
                r = pool.request("POST", url, content=b"abc")
                pool.close()
                return (r.status, r.content)
            res = w.run(sync_fn=prog)
        else:
            async def aprog():
                r = await pool.request("POST", url, content=b"abc")
                await pool.aclose()
                return (r.status, r.content)
            res = w.run(async_fn=aprog)
        ex = Execution()
        ex.notes["unmergeable"] = sorted(w.unmergeable)
        ex.trace = [op.rec() for op in w.net.ledger if op.kind in ("read", "start_tls")]
        ex.nontrivial = sum(1 for o in w.net.ledger if o.kind == "read") > 2
        if res != ("ok", (200, b"<viaTunnel>")):
            ex.violations.append(Violation("C17.tunnel", f"request through the tunnel gave {res[0]}:{res[1] if res[0] != 'exc' else exc_class(res[1])} | ct={self.ct} variant={self.variant} "
                                           f"reads={[len(o.result) for o in w.net.ledger if o.kind == 'read' and isinstance(o.result, bytes)]}",
                                           {"harness": "tunnelseg", "kind": "tunnel"}))
        for c in topo.all_h1_conns():
            if c.parser.errors:
                ex.violations.append(Violation("C17.tunnel", f"origin could not parse the tunnelled request: {c.parser.errors[:2]}", {"harness": "tunnelseg", "kind": "tunnel-garbled"}))
        ex.outcome = str(res[0])
        return ex


def specs(tier):
    out = []
    datas = ["", "a", "abcdef"] if tier == "quick" else ["", "a", "ab", "abc", "abcdef", "abcdefghij"]
    for variant in ("sync", "async"):
        for mode in ("101", "connect"):
            for d in datas:
                out.append(make_spec(MOD, "UpgradeHarness", variant=variant, mode=mode, data=d))
        out.append(make_spec(MOD, "UpgradeHarness", variant=variant, mode="connect", data="abc", status=204))
        # the switch on a re-used connection of a pool with keepalive_expiry, the stream held beyond that expiry
        for mode in ("101", "connect"):
            out.append(make_spec(MOD, "UpgradeHarness", variant=variant, mode=mode, data="abc", reused=True))
        # the caller drains the (empty) response body before using the stream
        for mode in ("101", "connect"):
            for prelude in ("read", "iter"):
                out.append(make_spec(MOD, "UpgradeHarness", variant=variant, mode=mode, data="abc" if tier == "quick" else "abcdef", prelude=prelude))
        # interim 1xx responses before the switching response (the bytes after the FINAL head are the stream's)
        for mode in ("101", "connect"):
            for n in ((1,) if tier == "quick" else (1, 2)):
                for d in (("abc",) if tier == "quick" else ("", "abc")):
                    out.append(make_spec(MOD, "UpgradeHarness", variant=variant, mode=mode, data=d, interim=n))
        # other requests complete on the same pool (keep-alive limit 1) while the switched stream is in use
        for mode in ("101", "connect"):
            out.append(make_spec(MOD, "UpgradeHarness", variant=variant, mode=mode, data="abc", neighbours=2 if tier == "quick" else 3))
        out.append(make_spec(MOD, "TunnelSegHarness", variant=variant, ct="tunnel"))
        if tier == "thorough":
            out.append(make_spec(MOD, "TunnelSegHarness", variant=variant, ct="tunnel-s"))
    return out


def diff_params(tier):
    return ("mc.props.c17", "UpgradeHarness", [dict(mode=m, data="abc") for m in ("101", "connect")])


def check(tier="quick", seed=0, workers=None, only=None):
    sp = common.filt(specs(tier), only)
    st = engine.explore_many(sp, workers=workers, bound=None, seed=seed, max_violations=40, max_execs=60000 if tier == "quick" else 600000)
    viols = common.collect(st, ("C17",))
    cov = evidence.stats_coverage(
        st,
        rule=("per scenario (mode 101 / CONNECT-2xx, post-head data of 0..10 bytes, variant): choices = how many bytes each network read returns (every cut) and which "
              "max_bytes in {65536,1,2,3,5} each caller read uses; also with the caller reading / iterating the empty response body first; states merged on (wire position, h11 state, leading-data buffer, bytes collected, stack locals); "
              "drained frontier = every segmentation x every max_bytes sequence; non-trivial = more than one caller read or more than two network reads"),
        extra={"scenarios": len(sp)})
    return {"level": "model_checking", "coverage": cov, "violations": viols,
            "assumptions": ["post-head data and later live data are one byte script; which part arrives with the head is decided by the cuts",
                            "TLS inside the tunnel is abstract (no handshake bytes), so data coalesced with the proxy's CONNECT reply cannot occur there"]}
