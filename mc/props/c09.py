"""C09 — keep-alive reuse, limits and expiry.

W-S explicit-state BFS over operation sequences (request / open / close / tick /
server_close over origins A,B,C) with the virtual clock, per pool configuration,
HTTP/1.1 and HTTP/2, sync and async.  Every transition is judged against the
property's four rules from the *observed* pre- and post-state (so the oracle does
not depend on which idle connection an implementation picks)."""
from __future__ import annotations

import httpcore

from .. import engine, evidence, scen
from ..engine import Execution, Violation, make_spec
from ..seqworld import SeqWorld, exc_class
from ..simnet import core as sim
from . import common
from .conc import reachable_transports

MOD = "mc.props.c09"
ORIGINS = ["a", "b", "c"]


class _RecList(list):
    """Stands in for the pool's connection list: at each removal it records which connection goes and what the
    list holds at that very moment (connection, is_idle()), so that a surplus close can be judged against the
    state the pool decided on rather than against the state before or after the whole operation."""

    def _mc_state(self):
        return list(self)

    def remove(self, c):
        self.removals.append((c, [(x, bool(x.is_idle())) for x in self]))
        list.remove(self, c)


class KeepAliveHarness:
    horizon = 400

    def __init__(self, variant, proto=None, max_connections=None, max_keepalive=None, expiry=None, depth=4, origins=3, ct=None):
        self.variant = variant
        self.ct = ct or ("h11" if proto == "h1" else "h2pk")
        self.proto = scen.CONN_TYPES[self.ct]["proto"]            # "h1" | "h2"
        self.mc = max_connections
        self.mk = max_keepalive
        self.expiry = expiry
        self.depth = depth
        self.origins = ORIGINS[:origins]

    # ------------------------------------------------------------------ shared step logic
    def _snapshot(self, pool, w, meta):
        """Observed state: per pooled connection its transports, idle/closed flags and health."""
        now = w.env.time
        out = []
        for c in pool.connections:
            trs = sorted(reachable_transports(c))
            tid = trs[0] if trs else None
            m = meta.get(tid, {})
            idle = c.is_idle()
            closed = c.is_closed()
            health = "n/a"
            if idle and not closed:
                dl = None if self.expiry is None or m.get("idle_since") is None else m["idle_since"] + self.expiry
                if m.get("server_closed") and self.proto == "h1":
                    health = "dead"
                elif dl is None or now < dl:
                    health = "healthy"
                elif now == dl:
                    health = "boundary"
                else:
                    health = "expired"
            out.append({"tid": tid, "origin": m.get("origin"), "idle": idle and not closed, "closed": closed, "health": health})
        return out

    def _menu(self, pool, w, meta, held, snap):
        N = self.mc if self.mc is not None else 10 ** 9
        live = [s for s in snap if not s["closed"]]
        ops = []
        for o in self.origins:
            reusable = any(s["origin"] == o and s["idle"] and s["health"] in ("healthy", "boundary") for s in live)
            h2_busy = self.proto == "h2" and any(s["origin"] == o and not s["idle"] for s in live)
            feasible = reusable or h2_busy or len(live) < N or any(s["idle"] for s in live)
            if feasible:
                ops.append(("request", o))
                ops.append(("open", o))
        for i in range(len(held)):
            ops.append(("close", i))
        if self.expiry is not None:
            dls = sorted({meta[s["tid"]]["idle_since"] + self.expiry for s in live if s["idle"] and s["tid"] in meta and meta[s["tid"]].get("idle_since") is not None})
            future = [d for d in dls if d >= w.env.time]
            if future:
                d = future[0]
                for delta in (d - 0.5, d, d + 0.5):
                    if delta > w.env.time or (delta == w.env.time and False):
                        ops.append(("tick", round(delta - w.env.time, 3)))
        if self.proto == "h1":
            for s in live:
                if s["idle"] and s["health"] != "dead" and not w.net.transports[s["tid"]].peer_eof:
                    ops.append(("server_close", s["tid"]))
        return ops

    def _judge_step(self, ex, op, pre, post, w, meta, before_ops, now_pre, removals=()):
        limit = min(self.mc if self.mc is not None else 10 ** 9, self.mk if self.mk is not None else 10 ** 9)
        sig = {"harness": "keepalive", "proto": self.proto}

        def viol(kind, msg):
            ex.violations.append(Violation("C09." + kind, f"{msg} | op={op} config=(max_connections={self.mc}, max_keepalive={self.mk}, expiry={self.expiry}) ct={self.ct} proto={self.proto} "
                                           f"variant={self.variant} t={w.env.time} pre={pre} post={post}", dict(sig, kind=kind)))
        new_ops = w.net.ledger[before_ops:]
        connects = [o for o in new_ops if o.kind.startswith("connect")]
        writes = [o for o in new_ops if o.kind == "write" and o.state == "ok"]
        closes = {o.tr.id for o in new_ops if o.kind == "close"}
        pre_live = [s for s in pre if not s["closed"]]
        # R2
        idle_after = sum(1 for s in post if s["idle"])
        if idle_after > limit:
            viol("R2-idle-over-limit", f"{idle_after} idle connections after the operation, keep-alive limit is {limit}")
        if op[0] in ("request", "open"):
            o = op[1]
            healthy = [s for s in pre_live if s["origin"] == o and s["idle"] and s["health"] == "healthy"]
            boundary = [s for s in pre_live if s["origin"] == o and s["idle"] and s["health"] == "boundary"]
            multiplex = self.proto == "h2" and any(s["origin"] == o and not s["idle"] for s in pre_live)
            bad = {s["tid"] for s in pre_live if s["idle"] and s["health"] in ("expired", "dead")}
            req_trs = {x.tr.id for x in writes}
            # R1
            if healthy and connects:
                viol("R1-no-reuse", f"a healthy idle connection for origin {o} existed (T{healthy[0]['tid']}) but {len(connects)} new connect(s) were made")
            if healthy and not multiplex and not (req_trs & {s["tid"] for s in healthy + boundary}):
                viol("R1-not-on-idle-connection", f"request for {o} travelled on {sorted(req_trs)}, not on the idle connection(s) {[s['tid'] for s in healthy]}")
            if not healthy and not boundary and not multiplex and len(connects) != 1:
                viol("R1-connects", f"no reusable connection for {o}: expected exactly one connect, saw {len(connects)}")
            # R3
            if req_trs & bad:
                viol("R3-request-on-dead-connection", f"request bytes written to expired/server-closed connection(s) {sorted(req_trs & bad)}")
        if op[0] in ("request", "open", "close"):
            # R3: the pool has run a pass: every expired / server-closed idle connection of the pre-state must be closed now
            for s in pre_live:
                if s["idle"] and s["health"] in ("expired", "dead") and not w.net.transports[s["tid"]].closed:
                    viol("R3-dead-connection-kept", f"connection T{s['tid']} ({s['health']}) is still open after a pool pass")
            # R4: healthy idle connections closed during this operation need a reason
            used = {x.tr.id for x in writes}
            turned_idle = [s for s in post if s["idle"]]  # survivors
            healthy_pre = [s for s in pre_live if s["idle"] and s["health"] == "healthy" and s["tid"] not in used]
            closed_healthy = [s for s in healthy_pre if w.net.transports[s["tid"]].closed]
            # connections that this very operation turned idle and that were closed in the same operation
            post_tids = {s["tid"] for s in post if not s["closed"]}
            own_closed = 0
            if op[0] in ("request", "close"):
                finished = used if op[0] == "request" else {op[2]} if len(op) > 2 else set()
                for t in finished:
                    tr = w.net.transports[t]
                    if tr.closed and t in closes and meta.get(t, {}).get("clean_finish"):
                        own_closed += 1
            H = len(healthy_pre) + (len([t for t in (used if op[0] == "request" else ({op[2]} if len(op) > 2 else set())) if meta.get(t, {}).get("clean_finish")]))
            # idle connections that are expired / server-closed / at the boundary instant still count as idle when the
            # pool decides whether the keep-alive limit is exceeded (the statement does not say which idle one goes)
            others_idle = len([s for s in pre_live if s["idle"] and s["health"] != "healthy" and s["tid"] not in used])
            surplus = max(0, H + others_idle - limit)
            N = self.mc if self.mc is not None else 10 ** 9
            evict = 1 if (op[0] in ("request", "open") and connects and len(pre_live) >= N) else 0
            n_closed = len(closed_healthy) + own_closed
            if n_closed > surplus + evict:
                viol("R4-unexplained-close", f"{n_closed} healthy idle connection(s) closed (pre-existing: {[s['tid'] for s in closed_healthy]}, own: {own_closed}); "
                     f"explained: surplus over keep-alive limit {surplus} (idle would be {H}, limit {limit}), eviction for room {evict}")
            # R4 at the moment of decision: a healthy idle connection may leave the pool as keep-alive surplus only if the idle
            # connections the pool holds at that moment outnumber the limit, or to make room at the connection limit
            pre_by_tid = {s["tid"]: s for s in pre_live}
            finished_now = used if op[0] == "request" else ({op[2]} if len(op) > 2 else set())
            for c, listed in removals:
                trs = sorted(reachable_transports(c))
                tid = trs[0] if trs else None
                s0 = pre_by_tid.get(tid)
                if tid in finished_now and meta.get(tid, {}).get("clean_finish"):
                    health = "healthy" if (self.expiry is None or self.expiry > 0) else "boundary"
                elif s0 is not None and s0["idle"]:
                    health = s0["health"]
                else:
                    continue
                if health != "healthy" or not dict((id(x), i) for x, i in listed).get(id(c)):
                    continue
                n_idle = sum(1 for _, i in listed if i)
                room = op[0] in ("request", "open") and len(listed) >= N
                if n_idle <= limit and not room:
                    viol("R4-removed-within-limit", f"healthy idle connection T{tid} was taken out of the pool while the pool held {n_idle} idle connection(s) "
                         f"(keep-alive limit {limit}) and {len(listed)} connection(s) in all (max_connections={self.mc})")

    def run(self, chooser) -> Execution:
        topo = scen.Topology(scen.CONN_TYPES[self.ct])
        meta: dict = {}      # transport id -> {origin, idle_since, server_closed, clean_finish}
        held: list = []
        state_root: list = [meta, held]
        w = SeqWorld(chooser, topo.router, variant=self.variant, merge_roots=state_root, faults=0)
        pool = scen.make_pool(self.ct, w.backend, self.variant, max_connections=self.mc, max_keepalive_connections=self.mk,
                              keepalive_expiry=self.expiry)
        if type(pool._connections) is not list:
            raise engine.MachineryError("pool._connections is no longer a plain list: the removal recorder of C09 does not apply")
        rec = _RecList(pool._connections)
        rec.removals = []
        pool._connections = rec
        w.roots.append(pool)
        ex = Execution()
        log = []
        is_sync = self.variant == "sync"

        def fp():
            return w._fp()

        def note_transports(origin):
            # origin of a transport = origin of the operation during which it was opened (for proxied types the
            # transport's own host is the proxy's)
            for t in w.net.transports:
                if t.id not in meta:
                    meta[t.id] = {"origin": origin, "idle_since": None, "server_closed": False, "clean_finish": False}

        # the program, written once with a tiny sync/async adapter
        async def arun(coro):
            return await coro

        def steps():
            """generator of (kind, payload) requests to the adapter; yields back results"""
            counter = 0
            for depth in range(self.depth):
                snap = self._snapshot(pool, w, meta)
                ops = self._menu(pool, w, meta, held, snap)
                if not ops:
                    break
                k = chooser.choose(len(ops) + 1, f"op{depth}", cost=0, fp=fp) if True else 0
                if k == len(ops):
                    break          # stop early (keeps the tree prefix-closed with choice 'stop' last)
                op = ops[k]
                del rec.removals[:]
                before = len(w.net.ledger)
                pre = snap
                now_pre = w.env.time
                tok = f"r{counter}"
                counter += 1
                if op[0] == "request":
                    res = yield ("request", scen.url_for(self.ct, host=f"{op[1]}.example", token=tok))
                    note_transports(op[1])
                    used = {x.tr.id for x in w.net.ledger[before:] if x.kind == "write"}
                    for t in used:
                        meta[t]["idle_since"] = w.env.time
                        meta[t]["clean_finish"] = res[0] == "ok"
                    if res[0] != "ok" or res[1] != (200, b"<" + tok.encode() + b">"):
                        ex.violations.append(Violation("C09.request-failed", f"request {op} gave {res} | config={self.mc, self.mk, self.expiry} log={log}",
                                                       {"harness": "keepalive", "kind": "request-failed", "proto": self.proto}))
                elif op[0] == "open":
                    res = yield ("open", scen.url_for(self.ct, host=f"{op[1]}.example", token=tok))
                    note_transports(op[1])
                    used = {x.tr.id for x in w.net.ledger[before:] if x.kind == "write"}
                    if res[0] == "ok":
                        held.append({"cm": res[1], "tid": sorted(used)[0] if used else None, "tok": tok})
                        for t in used:
                            meta[t]["idle_since"] = None
                            meta[t]["clean_finish"] = False
                    else:
                        ex.violations.append(Violation("C09.request-failed", f"open {op} gave {res} | config={self.mc, self.mk, self.expiry} log={log}",
                                                       {"harness": "keepalive", "kind": "request-failed", "proto": self.proto}))
                elif op[0] == "close":
                    h = held.pop(op[1])
                    op = ("close", op[1], h["tid"])
                    res = yield ("close", h["cm"])
                    if res[0] != "ok":
                        ex.violations.append(Violation("C09.held-response-broken", f"reading and closing a response that had been held open failed with {res} | "
                                                       f"ct={self.ct} config={self.mc, self.mk, self.expiry} t={w.env.time} log={log + [op]}",
                                                       {"harness": "keepalive", "kind": "held-response-broken", "proto": self.proto}))
                    if h["tid"] is not None:
                        # other streams may still be open on an HTTP/2 connection
                        still = any(x["tid"] == h["tid"] for x in held)
                        if not still:
                            meta[h["tid"]]["idle_since"] = w.env.time
                            meta[h["tid"]]["clean_finish"] = True
                elif op[0] == "tick":
                    w.env.time = round(w.env.time + op[1], 3)
                    res = ("ok", None)
                elif op[0] == "server_close":
                    w.net.transports[op[1]].shutdown()
                    meta[op[1]]["server_closed"] = True
                    res = ("ok", None)
                post = self._snapshot(pool, w, meta)
                log.append(op)
                self._judge_step(ex, op, pre, post, w, meta, before, now_pre, list(rec.removals))
                del rec.removals[:]
            # wind down
            for h in list(held):
                res = yield ("close", h["cm"])
                if res[0] != "ok":
                    ex.violations.append(Violation("C09.held-response-broken", f"reading and closing a response that had been held open failed with {res} | "
                                                   f"ct={self.ct} config={self.mc, self.mk, self.expiry} t={w.env.time} log={log}",
                                                   {"harness": "keepalive", "kind": "held-response-broken", "proto": self.proto}))
            held.clear()
            yield ("poolclose", None)

        if is_sync:
            def prog():
                g = steps()
                res = None
                while True:
                    try:
                        kind, payload = g.send(res)
                    except StopIteration:
                        return
                    try:
                        if kind == "request":
                            r = pool.request("GET", payload, extensions={"timeout": {"pool": 0}})
                            res = ("ok", (r.status, r.content))
                        elif kind == "open":
                            cm = pool.stream("GET", payload, extensions={"timeout": {"pool": 0}})
                            resp = cm.__enter__()
                            res = ("ok", (cm, resp))
                        elif kind == "close":
                            payload[1].read()
                            payload[0].__exit__(None, None, None)
                            res = ("ok", None)
                        else:
                            pool.close()
                            res = ("ok", None)
                    except Exception as e:
                        res = ("exc", exc_class(e))
            out = w.run(sync_fn=prog)
        else:
            async def aprog():
                g = steps()
                res = None
                while True:
                    try:
                        kind, payload = g.send(res)
                    except StopIteration:
                        return
                    try:
                        if kind == "request":
                            r = await pool.request("GET", payload, extensions={"timeout": {"pool": 0}})
                            res = ("ok", (r.status, r.content))
                        elif kind == "open":
                            cm = pool.stream("GET", payload, extensions={"timeout": {"pool": 0}})
                            resp = await cm.__aenter__()
                            res = ("ok", (cm, resp))
                        elif kind == "close":
                            await payload[1].aread()
                            await payload[0].__aexit__(None, None, None)
                            res = ("ok", None)
                        else:
                            await pool.aclose()
                            res = ("ok", None)
                    except Exception as e:
                        res = ("exc", exc_class(e))
            out = w.run(async_fn=aprog)
        ex.notes["unmergeable"] = sorted(w.unmergeable)
        ex.trace = [{"ops": [list(map(str, o)) for o in log]}] + [op.rec() for op in w.net.ledger if op.kind in ("connect_tcp", "close")]
        if out[0] != "ok":
            ex.violations.append(Violation("C09.harness-" + out[0], f"program did not finish: {out} log={log}", {"harness": "keepalive", "kind": "harness-" + out[0], "proto": self.proto}))
        still = [repr(t) for t in w.net.open_transports()]
        if still and out[0] == "ok":
            ex.violations.append(Violation("C09.open-after-close", f"streams open after pool close: {still} log={log}", {"harness": "keepalive", "kind": "open-after-close", "proto": self.proto}))
        ex.outcome = f"{len(log)}ops:conns={len(w.net.transports)}:kinds={sorted({o[0] for o in log})}"
        ex.nontrivial = len({o[0] for o in log}) >= 2
        return ex


PROXIED = ["h11tls", "h2alpn", "h2exp11", "fwd", "tunnel", "tunnel-h2", "tunnel-s", "socks", "socks-auth-tls", "socks-h2", "fwd-L", "tunnel-L", "socks-L"]
CONFIGS_OTHER_TYPES = [(2, 1, 5.0), (1, None, 5.0), (3, 2, 0)]
CONFIGS_QUICK = [(1, None, None), (2, 1, None), (2, 0, 5.0), (3, 1, 5.0), (3, 2, 0), (None, 1, 5.0), (2, None, 5.0), (None, None, 0)]


def specs(tier):
    out = []
    if tier == "quick":
        confs, depth = CONFIGS_QUICK, 4
    else:
        confs = [(a, b, c) for a in (1, 2, 3, None) for b in (0, 1, 2, None) for c in (None, 0, 5.0)]
        depth = 5
    for variant in ("sync", "async"):
        for proto in ("h1", "h2"):
            for (a, b, c) in confs:
                if tier == "quick" and variant == "async" and (a, b, c) not in CONFIGS_QUICK[:5]:
                    continue
                out.append(make_spec(MOD, "KeepAliveHarness", variant=variant, proto=proto, max_connections=a, max_keepalive=b, expiry=c, depth=depth))
    # longer histories on one origin (three and more requests with time passing in between: a deadline that is not refreshed)
    for variant in ("sync", "async"):
        for proto in ("h1", "h2"):
            out.append(make_spec(MOD, "KeepAliveHarness", variant=variant, proto=proto, max_connections=1, max_keepalive=None, expiry=5.0,
                                 depth=6 if tier == "quick" else 7, origins=1))
    # the other ten connection types (TLS, negotiated protocol, forward / tunnel / SOCKS proxies): their connection classes have
    # their own idle / expired / available predicates, delegating to the wrapped connection
    for ct in PROXIED:
        for i, (a, b, c) in enumerate(CONFIGS_OTHER_TYPES if tier == "quick" else confs):
            for variant in ("sync", "async"):
                if tier == "quick" and i > 0 and variant == "async":
                    continue
                if ct.endswith("-L") and (i > 0 if tier == "quick" else (a, b, c) not in CONFIGS_OTHER_TYPES):
                    continue      # pools built as HTTPProxy / SOCKSProxy objects: one configuration (three in the thorough tier)
                out.append(make_spec(MOD, "KeepAliveHarness", variant=variant, ct=ct, max_connections=a, max_keepalive=b, expiry=c,
                                     depth=3 if tier == "quick" else 4, origins=2))
    return out


def diff_params(tier):
    return ("mc.props.c09", "KeepAliveHarness", [dict(proto=p, max_connections=2, max_keepalive=1, expiry=5.0, depth=3, origins=2) for p in ("h1", "h2")])


def check(tier="quick", seed=0, workers=None, only=None):
    sp = common.filt(specs(tier), only)
    st = engine.explore_many(sp, workers=workers, bound=None, seed=seed, max_violations=60, max_execs=40000 if tier == "quick" else 400000)
    viols = common.collect(st, ("C09",))
    cov = evidence.stats_coverage(
        st,
        rule=("per pool configuration x protocol x variant (plain HTTP/1.1 and prior-knowledge HTTP/2 in full depth, the ten TLS / negotiated / proxied connection types with two origins at depth-1): BFS over all operation sequences up to the depth (request/open per origin A,B,C; close of any held response; "
              "tick to just below / exactly at / just above the next keep-alive deadline; server-side close of an idle HTTP/1.1 connection), states merged on the canonical pool+network+clock state "
              "so that deeper states are reached by chaining; every transition judged by R1-R4 from observed pre/post states; non-trivial = sequence with at least two operation kinds"),
        extra={"scenarios": len(sp)})
    return {"level": "model_checking", "coverage": cov, "violations": viols,
            "assumptions": ["at the exact instant now == deadline a connection may be treated either way (the statement says 'elapsed')",
                            "operations that would have to wait for a connection are not generated (single sequential caller); pool timeout 0 turns an unexpected wait into a reported failure"]}
