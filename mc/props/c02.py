"""C02 — responses are delivered byte-exact, independent of network segmentation.

W-S explicit-state search over ALL segmentations of a generated corpus of
well-formed responses, plus every truncation point, on the sync and async
variants, consumed through request() and through stream()+iter_stream().
HTTP/2 responses are explored by props.c02 through mc.h2world (frame-level peer).
"""
from __future__ import annotations

import itertools
import json

import httpcore

from .. import engine, evidence
from ..engine import Execution, Violation, make_spec
from ..seqworld import SeqWorld, exc_class
from ..simnet.http1 import ScriptConn

MOD = "mc.props.c02"

HEADER_SETS = [
    [],
    [("Server", "sim")],
    [("X-A", "1"), ("x-a", "2"), ("X-E", "")],
    [("X-Ows", "  p d\t ")],
    [("Co", "a=1"), ("Co", "b=2"), ("TyPe", "t/p")],
]
STATUS_LINES = [(200, "OK", "1.1"), (404, "Not Found", "1.1"), (500, "", "1.1"), (200, "OK", "1.0"), (201, "Created", "1.1")]
INTERIMS = [[], [100], [103, 100]]
FRAMINGS = ["cl0", "cl1", "cl5", "chunk1", "chunk3ext", "chunktrail", "close0", "close4", "head", "s204", "s304"]


def build_response(framing, hs, sl, interim):
    """-> (bytes, truth dict)"""
    status, reason, ver = sl
    method = "GET"
    body = b""
    headers = list(HEADER_SETS[hs])
    tail = b""
    eof = False
    if framing == "s204":
        status, reason = 204, "No Content"
    elif framing == "s304":
        status, reason = 304, "Not Modified"
    elif framing == "head":
        method = "HEAD"
        headers.append(("Content-Length", "5"))
    elif framing.startswith("cl") and not framing.startswith("close"):
        n = int(framing[2:])
        body = b"abcdefgh"[:n]
        headers.append(("Content-Length", str(n)))
        tail = body
    elif framing.startswith("chunk"):
        if ver == "1.0":
            ver = "1.1"       # chunked is not defined for HTTP/1.0 responses
        headers.append(("Transfer-Encoding", "chunked"))
        if framing == "chunk1":
            parts = [b"abc"]
            tail = b"3\r\nabc\r\n0\r\n\r\n"
        elif framing == "chunk3ext":
            parts = [b"a", b"bc", b"defgh"]
            tail = b"1;ext=1\r\na\r\n2\r\nbc\r\n5;q\r\ndefgh\r\n0\r\n\r\n"
        else:
            parts = [b"ab", b"c"]
            tail = b"2\r\nab\r\n1\r\nc\r\n0\r\nX-Trailer: t\r\n\r\n"
        body = b"".join(parts)
    elif framing.startswith("close"):
        n = int(framing[5:])
        body = b"wxyz"[:n]
        tail = body
        eof = True
    data = b""
    for code in interim:
        if code == 100:
            data += b"HTTP/1.1 100 Continue\r\n\r\n"
        else:
            data += b"HTTP/1.1 103 Early\r\nLink: </s>\r\n\r\n"
    head = f"HTTP/{ver} {status} {reason}\r\n".encode()
    for k, v in headers:
        head += f"{k}: {v}\r\n".encode()
    head += b"\r\n"
    head_end = len(data) + len(head)
    data += head + tail
    if ver == "1.0":
        eof = True        # an HTTP/1.0 peer closes after the response
    truth = {
        "status": status, "reason": reason, "version": "HTTP/" + ver, "method": method,
        "headers": [[k, v.strip(" \t")] for k, v in headers], "body": body.decode(),
        "head_end": head_end, "close_delimited": framing.startswith("close"), "n": len(data), "eof": eof,
    }
    return data, truth


def corpus(tier):
    combos = []
    if tier == "quick":
        # every framing x interim pattern, rotating header sets and status lines so each appears often
        k = 0
        for fr in FRAMINGS:
            for it in range(len(INTERIMS)):
                combos.append((fr, k % len(HEADER_SETS), (k // 2) % len(STATUS_LINES), it))
                k += 1
    else:
        for fr, hs, sl, it in itertools.product(FRAMINGS, range(len(HEADER_SETS)), range(len(STATUS_LINES)), range(len(INTERIMS))):
            combos.append((fr, hs, sl, it))
    seen, out = set(), []
    for c in combos:
        if c not in seen:
            seen.add(c)
            out.append(c)
    return out


class Seg11Harness:
    """One response, one variant, one consumption style; the chooser cuts the byte
    stream into reads (all cuts) and may kill the peer at any read."""

    horizon = 5000

    def __init__(self, framing, hs, sl, interim, variant, consume, truncate=True, seg_cost=0, trace=None):
        self.trace = trace      # "truthy": the request carries a trace callback that returns a value (a logger's write() returns an int): whatever a
                                # callback returns, a truncated body is an error
        self.seg_cost = seg_cost
        self.data, self.truth = build_response(framing, hs, STATUS_LINES[sl], INTERIMS[interim])
        self.variant = variant
        self.consume = consume
        self.truncate = truncate
        self.framing = framing
        self.params = dict(framing=framing, hs=hs, sl=sl, interim=interim, variant=variant, consume=consume)

    def run(self, chooser) -> Execution:
        truth = self.truth
        script = ScriptConn(self.data, eof=truth["eof"], when="complete")
        collected: list = []
        w = SeqWorld(chooser, lambda kind, host, port: script, variant=self.variant, merge_roots=[collected],
                     segment=True, eof_anywhere=self.truncate, faults=0, seg_cost=self.seg_cost)
        method = truth["method"]
        url = "http://example.com/x"
        got = {}
        ext = {}
        if self.trace == "truthy":
            if self.variant == "sync":
                def _tr(name, info):
                    return len(name)
            else:
                async def _tr(name, info):
                    return len(name)
            ext = {"trace": _tr}

        if self.variant == "sync":
            pool = httpcore.ConnectionPool(network_backend=w.backend)
            w.roots.append(pool)

            def probe(r):
                # the body has been consumed: iterating the stream again must be refused, reading again hands out the same bytes
                out_ = []
                try:
                    out_.append(("chunks", b"".join(list(r.iter_stream()))))
                except Exception as e_:
                    out_.append(("raised", exc_class(e_)))
                try:
                    out_.append(("content", r.read()))
                except Exception as e_:
                    out_.append(("raised", exc_class(e_)))
                got["afterwards"] = out_

            def prog():
                if self.consume == "request":
                    r = pool.request(method, url, extensions=dict(ext))
                    got.update(status=r.status, headers=r.headers, ext=r.extensions, body=r.content)
                    probe(r)
                elif self.consume == "read":
                    with pool.stream(method, url, extensions=dict(ext)) as r:
                        got.update(status=r.status, headers=r.headers, ext=r.extensions)
                        try:
                            got["body"] = r.read()
                            probe(r)
                        except Exception:
                            # the body could not be read: what does the response object hand out afterwards?
                            try:
                                got["after_error"] = ("content", r.content)
                            except Exception as e2:
                                got["after_error"] = ("raised", exc_class(e2))
                            raise
                else:
                    with pool.stream(method, url, extensions=dict(ext)) as r:
                        got.update(status=r.status, headers=r.headers, ext=r.extensions)
                        for chunk in r.iter_stream():
                            collected.append(chunk)
                    got["body"] = b"".join(collected)
                return "done"
            res = w.run(sync_fn=prog)
        else:
            pool = httpcore.AsyncConnectionPool(network_backend=w.backend)
            w.roots.append(pool)

            async def aprobe(r):
                out_ = []
                try:
                    out_.append(("chunks", b"".join([c_ async for c_ in r.aiter_stream()])))
                except Exception as e_:
                    out_.append(("raised", exc_class(e_)))
                try:
                    out_.append(("content", await r.aread()))
                except Exception as e_:
                    out_.append(("raised", exc_class(e_)))
                got["afterwards"] = out_

            async def aprog():
                if self.consume == "request":
                    r = await pool.request(method, url, extensions=dict(ext))
                    got.update(status=r.status, headers=r.headers, ext=r.extensions, body=r.content)
                    await aprobe(r)
                elif self.consume == "read":
                    async with pool.stream(method, url, extensions=dict(ext)) as r:
                        got.update(status=r.status, headers=r.headers, ext=r.extensions)
                        try:
                            got["body"] = await r.aread()
                            await aprobe(r)
                        except Exception:
                            try:
                                got["after_error"] = ("content", r.content)
                            except Exception as e2:
                                got["after_error"] = ("raised", exc_class(e2))
                            raise
                else:
                    async with pool.stream(method, url, extensions=dict(ext)) as r:
                        got.update(status=r.status, headers=r.headers, ext=r.extensions)
                        async for chunk in r.aiter_stream():
                            collected.append(chunk)
                    got["body"] = b"".join(collected)
                return "done"
            res = w.run(async_fn=aprog)

        ex = Execution()
        ex.notes["unmergeable"] = sorted(w.unmergeable)
        died = [i for i in w.env.injected if i[1] == "die"]
        delivered = sum(len(op.result) for op in w.net.ledger if op.kind == "read" and isinstance(op.result, bytes))
        nreads = sum(1 for op in w.net.ledger if op.kind == "read")
        ex.nontrivial = nreads > 1 or bool(died)
        ex.trace = [op.rec() for op in w.net.ledger if op.kind in ("read", "close")]
        sig = {"harness": "seg11", "framing": self.framing, "variant": self.variant, "consume": self.consume}

        def viol(kind, msg):
            ex.violations.append(Violation("C02." + kind, f"{msg} | response={self.data!r} delivered={delivered} reads={nreads} died={bool(died)}",
                                           dict(sig, kind=kind)))

        complete = delivered >= truth["n"]
        st = res[0]
        if st == "hang":
            viol("read-past-end", "client kept reading after the complete response (peer still open)")
            ex.outcome = "hang"
            return ex
        if st in ("deadlock", "livelock"):
            viol(st, "caller did not terminate")
            ex.outcome = st
            return ex
        if st == "ok":
            exp_body = truth["body"].encode()
            if died and not complete:
                if truth["close_delimited"] and delivered >= truth["head_end"]:
                    exp_body = exp_body[: delivered - truth["head_end"]]
                else:
                    viol("silent-truncation", f"peer died after {delivered}/{truth['n']} bytes but the call returned normally: {got.get('status')} {got.get('body')!r}")
                    ex.outcome = "ok-after-truncation"
                    return ex
            if got.get("status") != truth["status"]:
                viol("status", f"status {got.get('status')} != {truth['status']}")
            ext = got.get("ext", {})
            if ext.get("reason_phrase") != truth["reason"].encode():
                viol("reason", f"reason {ext.get('reason_phrase')!r} != {truth['reason']!r}")
            if ext.get("http_version") != truth["version"].encode():
                viol("version", f"version {ext.get('http_version')!r} != {truth['version']!r}")
            exp_h = [(k.encode(), v.encode()) for k, v in truth["headers"]]
            if [tuple(h) for h in got.get("headers", [])] != exp_h:
                viol("headers", f"headers {got.get('headers')!r} != {exp_h!r}")
            if got.get("body") != exp_body:
                viol("body", f"body {got.get('body')!r} != {exp_body!r}")
            if self.consume == "stream" and b"".join(collected) != got.get("body"):
                viol("body", "chunks do not concatenate to body")
            aw = got.get("afterwards")
            if aw is not None:
                if aw[0] != ("raised", "builtins.RuntimeError"):
                    viol("body-delivered-twice", f"iterating the stream of a response whose body was already read gave {aw[0]} instead of being refused")
                if aw[1] != ("content", got.get("body")):
                    viol("body", f"reading the response a second time gave {aw[1]}, the first time {got.get('body')!r}")
            ex.outcome = f"ok:{truth['status']}:trunc={bool(died)}:after={aw}"
            return ex
        # exception
        e = res[1]
        cls = exc_class(e)
        ae = got.get("after_error")
        if ae is not None and ae[0] == "content" and ae[1] != truth["body"].encode():
            viol("truncated-content-after-error", f"reading the body failed with {cls}, yet response.content afterwards silently hands out {ae[1]!r} "
                 f"(the server framed {truth['body']!r})")
        if not died:
            viol("spurious-error", f"well-formed response fully delivered in {nreads} reads raised {cls}: {e}")
        ex.outcome = f"exc:{cls}:trunc={bool(died)}"
        return ex


def specs(tier):
    out = []
    for (fr, hs, sl, it) in corpus(tier):
        for variant in ("sync", "async"):
            for consume in ("request", "stream", "read"):
                if consume == "read" and (it != 0 or (tier == "quick" and variant == "async" and len(out) % 3)):
                    continue
                if tier == "quick" and it == 2 and (variant, consume) != (("sync", "request") if (len(out) % 2) else ("async", "stream")):
                    continue
                out.append(make_spec(MOD, "Seg11Harness", framing=fr, hs=hs, sl=sl, interim=it, variant=variant, consume=consume))
    # the same with a trace callback that returns a value
    seen_fr = []
    for (fr, hs, sl, it) in corpus(tier):
        if fr in seen_fr or (tier == "quick" and len(seen_fr) >= 4):
            continue
        seen_fr.append(fr)
        for variant in ("sync", "async"):
            for consume in (("request", "stream") if tier != "quick" else (("stream",) if variant == "sync" else ("request",))):
                out.append(make_spec(MOD, "Seg11Harness", framing=fr, hs=hs, sl=sl, interim=it, variant=variant, consume=consume, trace="truthy"))
    return out


def check(tier="quick", seed=0, workers=None, only=None):
    sp = specs(tier)
    from . import c02_h2
    sp2 = c02_h2.specs(tier)
    allsp = sp + sp2
    if only:
        allsp = [s for s in allsp if only in s[1] + s[2]]
    st = engine.explore_many(allsp, workers=workers, bound=None, merge=True, seed=seed, max_execs=400000)
    # merge self-test: a few scenarios with merging off must give identical outcome sets
    mt = {"scenarios": 0, "agree": 0}
    if not only:
        for s in (sp[:: max(1, len(sp) // 3)][:3]):
            p = dict(json.loads(s[2]), seg_cost=1)
            s2 = make_spec(MOD, "Seg11Harness", **p)
            a = engine.explore(s2, bound=2, merge=True, seed=seed, recheck=0)
            b = engine.explore(s2, bound=2, merge=False, seed=seed, recheck=0, max_execs=300000)
            mt.setdefault("execs_merged", []).append(a.evaluations)
            mt.setdefault("execs_unmerged", []).append(b.evaluations)
            mt["scenarios"] += 1
            if set(a.outcomes) == set(b.outcomes) and bool(a.violations) == bool(b.violations) and not b.caps:
                mt["agree"] += 1
            else:
                raise engine.MachineryError(f"merge self-test disagreement on {s2}: {a.outcomes} vs {b.outcomes}")
    viols = []
    for v in st.violations:
        for x in v["violations"]:
            viols.append({"oracle": x["oracle"], "message": x["message"], "signature": x["signature"], "spec": v["spec"],
                          "choices": v["choices"], "labels": v["labels"], "trace": v["trace"][-30:]})
    # multiplexed HTTP/2 bodies: which task's read happens to carry a stream's DATA is a kind of segmentation too
    from . import conc, common
    cst, cinfo = conc.run_for("C02", tier, seed, workers, only) if not only else (engine.Stats(bound=None), {})
    for v in common.collect(cst, ("C01",)):
        if v["oracle"] == "C01.cross-talk":
            v = dict(v, oracle="C02.body")
            v["signature"] = dict(v["signature"], kind="multiplexed-body")
            viols.append(v)
    st.merge_from(cst)
    # the real sync / anyio / trio backends under the framings that depend on their end-of-stream convention
    from . import backends
    bst, binfo = backends.run_for(tier, seed, workers, only, purpose="framings") if not only else (engine.Stats(bound=None), {})
    viols += common.collect(bst, ("C02",))
    st.merge_from(bst)
    cov = evidence.stats_coverage(
        st,
        rule=("one scenario = one generated well-formed response x {sync,async} x {request(),stream()} (HTTP/1.1) or one HTTP/2 frame script; "
              "choices = how many bytes each read returns (every cut) and 'peer dies now' at every read; states merged on "
              "(wire position, h11/h2 parser state incl. buffers, connection+pool state, httpcore stack locals, chunks delivered); "
              "a frontier that drains = every segmentation and truncation point of that response; non-trivial = outcome class of an "
              "execution with more than one read or a truncation"),
        extra={"scenarios": len(allsp), "http11_scenarios": len(sp), "http2_scenarios": len(sp2), "merge_selftest": mt,
               "responses_in_corpus": len(corpus(tier)), "multiplexed_http2": cinfo, "real_backends_framings": binfo})
    return {"level": "model_checking", "coverage": cov, "violations": viols,
            "assumptions": ["the peer sends exactly the scripted well-formed response; bytes lost on peer death are never delivered",
                            "the inlined list comprehension inside Response.read() keeps its partial list on the evaluation stack where the fingerprint cannot see it; "
                            "it is append-only and read once at the end, and every execution runs to completion under the oracle"]}
