"""C18 — sync and async APIs behave identically.

(a) translation validation over every line of every file: httpcore/_sync must be
    byte-for-byte what scripts/unasync.py (imported from /repo) makes of httpcore/_async;
(b) lock-step differential exploration: the same choice tree (faults at every
    operation, read segmentations) is executed on the sync classes and, with the
    same choice sequence, on the async classes; choice-point labels, ledgers,
    outcomes and pool/connection reprs must agree.
"""
from __future__ import annotations

import importlib
import importlib.util
import io
import json
import os
import re
import tokenize

import httpcore

from .. import engine, evidence, scen
from ..engine import Chooser, Execution, MachineryError, ReplayDivergence, Violation, make_spec
from . import common

MOD = "mc.props.c18"
REPO = os.path.dirname(os.path.dirname(os.path.realpath(httpcore.__file__)))


# --------------------------------------------------------------------------- (a)

def translation_validation():
    viols = []
    spec = importlib.util.spec_from_file_location("_mc_unasync", os.path.join(REPO, "scripts", "unasync.py"))
    un = importlib.util.module_from_spec(spec)
    spec.loader.exec_module(un)
    adir, sdir = os.path.join(REPO, "httpcore", "_async"), os.path.join(REPO, "httpcore", "_sync")
    afiles = sorted(f for f in os.listdir(adir) if f.endswith(".py"))
    sfiles = sorted(f for f in os.listdir(sdir) if f.endswith(".py"))
    lines = 0
    samples = []

    def bad(kind, msg, file):
        viols.append({"oracle": "C18." + kind, "message": msg, "signature": {"harness": "translation", "kind": kind, "file": file},
                      "case": {"file": file}})

    if afiles != sfiles:
        bad("file-set", f"file sets differ: async-only {sorted(set(afiles) - set(sfiles))} sync-only {sorted(set(sfiles) - set(afiles))}", "*")
    for f in afiles:
        if f not in sfiles:
            continue
        a = open(os.path.join(adir, f), newline="").readlines()
        s = open(os.path.join(sdir, f), newline="").readlines()
        exp = [un.unasync_line(l) for l in a]
        if len(exp) != len(s):
            bad("line-count", f"{f}: translation has {len(exp)} lines, sync file has {len(s)}", f)
        for i, (e, got) in enumerate(zip(exp, s)):
            lines += 1
            if e != got:
                bad("line", f"{f}:{i + 1}: expected {e!r} got {got!r} (async line {a[i]!r})", f)
                break
            if a[i] != e and len(samples) < 5 and i % 7 == 0:
                samples.append({"file": f, "line": i + 1, "async": a[i].strip(), "sync": got.strip()})
        # no async/await token may survive in the sync tree
        src = "".join(s)
        for tok in tokenize.generate_tokens(io.StringIO(src).readline):
            if tok.type == tokenize.NAME and tok.string in ("async", "await"):
                bad("async-token", f"{f}:{tok.start[0]}: token {tok.string!r} in the sync tree", f)
                break
    return viols, {"files": len(afiles), "lines": lines, "samples": samples}


# --------------------------------------------------------------------------- (b)

def _norm(x):
    s = json.dumps(x, sort_keys=True, default=repr)
    s = s.replace("AsyncConnectionPool", "ConnectionPool")
    s = re.sub(r"\bAsync([A-Z][A-Za-z0-9]*)", r"\1", s)
    return s


# ---- trace seam: while a DiffHarness runs, every Request gets a "trace" extension (a plain function for the sync
# variant, a coroutine function for the async one, as the documentation requires) that records the event names; the
# two variants must emit the same events in the same order.  Installed by rebinding Request.__init__ in this process.
_TRACE = [None]          # None | (mode, sink)
_POOLS: list = []        # pools created while a DiffHarness runs: the trace callback looks at them, as a logging callback would


def _install_pool_registry():
    import httpcore
    for cls in (httpcore.ConnectionPool, httpcore.AsyncConnectionPool):
        if getattr(cls.__init__, "_mc_reg", False):
            continue

        def make(orig):
            def init(self, *a, **kw):
                orig(self, *a, **kw)
                if _TRACE[0] is not None:
                    _POOLS.append(self)
            init._mc_reg = True
            return init
        cls.__init__ = make(cls.__init__)


def _install_trace_seam():
    from httpcore import _models
    if getattr(_models.Request.__init__, "_mc_trace", False):
        return
    orig = _models.Request.__init__

    def init(self, *a, **kw):
        orig(self, *a, **kw)
        t = _TRACE[0]
        if t is not None and "trace" not in self.extensions:
            mode, sink = t

            def note(name, info):
                exc = info.get("exception") if isinstance(info, dict) else None
                # a callback that logs the state of the pool (repr() takes the pool's own lock in the sync variant)
                seen = [repr(p_).split("[", 1)[-1] for p_ in _POOLS]
                sink.append((name, type(exc).__name__ if exc is not None else None, seen))
            if mode == "sync":
                def sync_trace(name, info):
                    note(name, info)
                cb = sync_trace
            else:
                async def async_trace(name, info):
                    note(name, info)
                cb = async_trace
            self.extensions = dict(self.extensions)
            self.extensions["trace"] = cb
    init._mc_trace = True
    _models.Request.__init__ = init


class DiffHarness:
    """Runs harness `cls` of `module` with variant=sync under the explorer's chooser and then with
    variant=async under a chooser that replays exactly the same choices (labels and arities checked)."""

    horizon = 6000

    def __init__(self, hmod, cls, params, debuglog=False):
        self.debuglog = debuglog        # run both variants with DEBUG logging on for the "httpcore" loggers (the logging branch of every Trace block)
        m = importlib.import_module(hmod)
        self.a = getattr(m, cls)(variant="sync", **params)
        self.b = getattr(m, cls)(variant="async", **params)
        self.name = f"{cls}{json.dumps(params, sort_keys=True)}"

    def run(self, chooser) -> Execution:
        if not self.debuglog:
            return self._run(chooser)
        import logging
        lg = logging.getLogger("httpcore")
        old_level, old_disable = lg.level, logging.root.manager.disable
        h_ = logging.NullHandler()
        lg.addHandler(h_)
        logging.disable(logging.NOTSET)
        lg.setLevel(logging.DEBUG)
        try:
            return self._run(chooser)
        finally:
            lg.setLevel(old_level)
            lg.removeHandler(h_)
            logging.disable(old_disable)

    def _run(self, chooser) -> Execution:
        _install_trace_seam()
        _install_pool_registry()
        tr1, tr2 = [], []
        del _POOLS[:]
        _TRACE[0] = ("sync", tr1)
        try:
            ex1 = self.a.run(chooser)
        finally:
            _TRACE[0] = None
            del _POOLS[:]
        choices = [p[2] for p in chooser.points]
        labels = [(p[0], p[1]) for p in chooser.points]
        out = Execution()
        out.outcome = ex1.outcome
        out.nontrivial = ex1.nontrivial
        out.notes = {"unmergeable": ex1.notes.get("unmergeable", [])}
        sig = {"harness": "diff", "scenario": self.name[:160]}
        ch2 = Chooser(choices, labels, want_fp=False, horizon=self.horizon)
        _TRACE[0] = ("async", tr2)
        try:
            ex2 = self.b.run(ch2)
        except ReplayDivergence as e:
            out.violations.append(Violation("C18.choice-points", f"async variant diverges from the sync choice tree: {e} | {self.name}", dict(sig, kind="choice-points")))
            return out
        finally:
            _TRACE[0] = None
            del _POOLS[:]
        if len(ch2.points) != len(choices):
            out.violations.append(Violation("C18.choice-points", f"sync made {len(choices)} environment choices, async {len(ch2.points)} | {self.name}", dict(sig, kind="choice-points")))
            return out

        def strip(tr):
            return [{k: v for k, v in r.items() if k != "task"} if isinstance(r, dict) else r for r in tr]
        t1, t2 = strip(ex1.trace), strip(ex2.trace)
        if _norm(t1) != _norm(t2):
            i = next((i for i, (x, y) in enumerate(zip(t1, t2)) if _norm(x) != _norm(y)), min(len(t1), len(t2)))
            out.violations.append(Violation("C18.ledger", f"ledgers differ at entry {i}: sync={t1[i] if i < len(t1) else None} async={t2[i] if i < len(t2) else None} | {self.name}",
                                            dict(sig, kind="ledger")))
        if _norm(ex1.outcome) != _norm(ex2.outcome):
            out.violations.append(Violation("C18.outcome", f"outcomes differ: sync={ex1.outcome} async={ex2.outcome} | {self.name}", dict(sig, kind="outcome")))
        if _norm(ex1.notes.get("log")) != _norm(ex2.notes.get("log")):
            out.violations.append(Violation("C18.state", f"pool/connection states differ: sync={ex1.notes.get('log')} async={ex2.notes.get('log')} | {self.name}", dict(sig, kind="state")))
        if tr1 != tr2:
            i = next((i for i, (x, y) in enumerate(zip(tr1, tr2)) if x != y), min(len(tr1), len(tr2)))
            out.violations.append(Violation("C18.trace-events", f"trace events differ at #{i}: sync={tr1[i] if i < len(tr1) else None} async={tr2[i] if i < len(tr2) else None} "
                                            f"(sync {len(tr1)} events, async {len(tr2)}) | {self.name}", dict(sig, kind="trace-events")))
        out.notes["trace_events"] = len(tr1)
        v1 = sorted(v.oracle for v in ex1.violations)
        v2 = sorted(v.oracle for v in ex2.violations)
        if v1 != v2:
            out.violations.append(Violation("C18.oracles", f"property oracles disagree: sync={v1} async={v2} | {self.name}", dict(sig, kind="oracles")))
        out.trace = [{"sync": t1[-30:]}, {"async": t2[-30:]}]
        return out


def diff_specs(tier):
    out = []
    for ct in scen.CONN_TYPES:
        for method in ("GET", "POST"):
            for warm in (False, True):
                for consume in ("request", "early-close"):
                    if tier == "quick" and consume == "early-close" and (method == "POST" or warm):
                        continue
                    out.append(make_spec(MOD, "DiffHarness", hmod="mc.props.seqfault", cls="SeqFaultHarness",
                                         params=dict(ct=ct, method=method, warm=warm, consume=consume)))
        # streamed (iterator / async-iterator) request body, and a server that answers before the upload is complete
        out.append(make_spec(MOD, "DiffHarness", hmod="mc.props.seqfault", cls="SeqFaultHarness",
                             params=dict(ct=ct, method="POST", warm=False, consume="request", body="iter")))
        if tier != "quick" or ct in ("h11", "h2alpn", "tunnel"):
            out.append(make_spec(MOD, "DiffHarness", hmod="mc.props.seqfault", cls="SeqFaultHarness",
                                 params=dict(ct=ct, method="POST", warm=True, consume="request", body="iter", early=True)))
    # the same histories with DEBUG logging on
    for ct in (["h11", "h2alpn", "tunnel", "socks-auth-tls"] if tier == "quick" else list(scen.CONN_TYPES)):
        out.append(make_spec(MOD, "DiffHarness", hmod="mc.props.seqfault", cls="SeqFaultHarness",
                             params=dict(ct=ct, method="POST", warm=True, consume="request"), debuglog=True))
    # read segmentations of a few responses (cut bound 2), both consumption styles
    from . import c02
    for fr in (["cl5", "chunk3ext", "close4"] if tier == "quick" else c02.FRAMINGS):
        for consume in ("request", "stream"):
            out.append(make_spec(MOD, "DiffHarness", hmod="mc.props.c02", cls="Seg11Harness",
                                 params=dict(framing=fr, hs=2, sl=0, interim=1, consume=consume, seg_cost=1)))
    for mod, cls, plist in extra_diff(tier):
        for p in plist:
            out.append(make_spec(MOD, "DiffHarness", hmod=mod, cls=cls, params=p))
    return out


def extra_diff(tier):
    """Other sequential-world corpora that take a `variant` parameter (filled in as they are built)."""
    out = []
    for name in ("c09", "c17", "c20"):
        try:
            m = importlib.import_module(f"mc.props.{name}")
        except ImportError:
            continue
        f = getattr(m, "diff_params", None)
        if f is not None:
            out.append(f(tier))
    return out


def backend_differential(tier):
    """The real SyncBackend against the real AnyIOBackend and TrioBackend (over the OS-level fakes): for the same request history and
    timeout configuration the OS-level operations, the limit in effect at each of them and the outcome must be the same."""
    from . import backends
    out, n = [], 0
    cts = ["h11", "h11tls", "h2alpn", "tunnel"] if tier == "quick" else list(scen.CONN_TYPES)
    for ct in cts:
        for tcfg in ("all", "connect-only", "read-only", "none"):
            for method, warm in (("GET", False), ("POST", True)):
                runs = {}
                for rt in backends.RUNTIMES:
                    r = engine.run_once(make_spec("mc.props.backends", "BackendHarness", runtime=rt, ct=ct, method=method, warm=warm, timeouts=tcfg),
                                        [], want_fp=False, keep_trace=True)
                    n += 1
                    if "error" in r:
                        raise engine.MachineryError(f"backend differential: {r['error']}")
                    ops = [(t.get("op"), (t.get("args") or {}).get("timeout")) for t in r["trace"]
                           if isinstance(t, dict) and t.get("op") in ("connect_tcp", "start_tls", "read", "write", "close")]
                    runs[rt] = (ops, r["outcome"])
                for rt in ("anyio", "trio"):
                    if runs[rt] != runs["sync"]:
                        a, b = runs["sync"][0], runs[rt][0]
                        i = next((i for i, (x, y) in enumerate(zip(a, b)) if x != y), min(len(a), len(b)))
                        out.append({"oracle": "C18.backend-ledger",
                                    "message": (f"sync and {rt} backends differ for ct={ct} timeouts={tcfg} method={method} warm={warm}: at OS-level operation #{i} "
                                                f"(kind, limit in effect) sync={a[i] if i < len(a) else None} {rt}={b[i] if i < len(b) else None}; "
                                                f"outcomes sync={runs['sync'][1]} {rt}={runs[rt][1]}"),
                                    "signature": {"harness": "backend-diff", "kind": "backend-ledger", "other": rt}, "case": {"backend_diff": True}})
    return out, n


def replay_case(case):
    if case.get("backend_diff"):
        return backend_differential("quick")[0]
    v, _ = translation_validation()
    return v


def check(tier="quick", seed=0, workers=None, only=None):
    tv, tinfo = translation_validation()
    specs = common.filt(diff_specs(tier), only)
    st = engine.explore_many(specs, workers=workers, bound=2, seed=seed, max_violations=100, max_execs=200000)
    viols = tv + common.collect(st, ("C18",))
    bd, bd_n = backend_differential(tier) if not only else ([], 0)
    viols += bd
    # the trace seam must be in effect: one plain execution has to record events on both sides
    probe = engine.run_once(make_spec(MOD, "DiffHarness", hmod="mc.props.seqfault", cls="SeqFaultHarness",
                                      params=dict(ct="tunnel", method="GET", warm=False, consume="request")), [], want_fp=False)
    if "error" in probe or not probe["notes"].get("trace_events"):
        raise engine.MachineryError(f"C18: the trace seam recorded nothing in a plain tunnelled request: {probe.get('error', probe['notes'])}")
    cov = evidence.stats_coverage(
        st,
        rule=("(a) every line of every file under httpcore/_async translated in memory with scripts/unasync.py and compared with its _sync twin; "
              "(c) the real sync backend against the real anyio and trio backends over OS-level fakes: same operations and limits for 4 timeout configurations; "
              "(b) each scenario explored with deviation bound 2 on the sync classes, every execution re-run on the async classes with the same choice sequence: "
              "ledgers, outcomes, pool states, property verdicts and the sequence of `trace` extension events (every request carries a recording trace callback, "
              "plain function / coroutine function) must agree; "
              "non-trivial = outcome class of an execution with an injected fault or a cut"),
        extra={"programs": tinfo["files"], "disagreements_checked": tinfo["lines"], "translation_samples": tinfo["samples"],
               "differential_scenarios": len(specs), "differential_executions_pairs": st.evaluations,
               "trace_events_in_probe_execution": probe["notes"].get("trace_events"), "backend_differential_runs": bd_n})
    cov["samples"] = (tinfo["samples"] + cov["samples"])[:8]
    return {"level": "translation_validation", "coverage": cov, "violations": viols,
            "assumptions": ["the translator is scripts/unasync.py as found in /repo; hand-written pairs (_synchronization.py primitives, mock backend) are outside (a) and exercised by (b) and C08/C07 only"]}
