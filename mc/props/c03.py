"""C03 — requests are serialised faithfully on the wire.

Bounded-exhaustive enumeration of request shapes (method x target x header
sequence x body form), sync and async, HTTP/1.1 and HTTP/2, each shape sent twice
on one pool (first use and reuse of the connection).  The bytes the simulated
peer received are decoded by the independent HTTP/1.1 parser / the frame-level
HTTP/2 peer and compared with the caller's request under the property's normal form.
"""
from __future__ import annotations

import itertools
import multiprocessing as mp
import os
import re

import httpcore

from .. import engine, evidence, scen
from ..engine import Chooser
from ..seqworld import SeqWorld, exc_class
from ..simnet.http1 import TOKEN_RE

METHODS = ["GET", "POST", "PUT", "HEAD", "OPTIONS", "DELETE", "M-SEARCH", "get", "GE T", ""]
# (url path part, target extension or None)
TARGETS = [("/", None), ("/a?b=c", None), ("/a;p=1", None), ("/", b"*"), ("/", b"http://other.example/x"), ("/", b"/\xff\xfe"),
           ("/", b"/a b"), ("/", b"/a\r\nX-Injected: y")]
HEADER_ALPHABET = [
    ("Host", "given.example"), ("Content-Length", None), ("Transfer-Encoding", "chunked"), ("X-A", "1"), ("x-a", "2"), ("X-E", ""),
    ("X Y", "1"), ("X-Bad", "a\r\nb"),
    ("TE", "gzip"),      # legal on HTTP/1.1; on HTTP/2 only "TE: trailers" may be sent (RFC 9113 8.2.2): must be rejected locally there
]
BODIES = ["none", "empty", "bytes", "iter:abc", "iter:a,bc", "iter:,abc,", "iter:a,,b,c", "iter:"]
BODY_BYTES = b"abc"

FIELD_VALUE_OK = re.compile(rb"^[\x21-\x7e\x80-\xff]([\x20\x09\x21-\x7e\x80-\xff]*[\x21-\x7e\x80-\xff])?$|^$")
TARGET_OK = re.compile(rb"^[\x21-\x7e]+$")


def body_of(kind):
    if kind == "none":
        return None, None
    if kind == "empty":
        return b"", b""
    if kind == "bytes":
        return BODY_BYTES, BODY_BYTES
    chunks = [c.encode() for c in kind[5:].split(",")] if kind[5:] != "" else []
    return chunks, b"".join(chunks)


def header_sequences(maxlen):
    for n in range(0, maxlen + 1):
        for combo in itertools.product(range(len(HEADER_ALPHABET)), repeat=n):
            names = [HEADER_ALPHABET[i][0].lower() for i in combo]
            # framing headers at most once each, and not both (the caller would be lying about the body otherwise)
            if names.count("content-length") + names.count("transfer-encoding") > 1 or names.count("host") > 1:
                continue
            yield combo


def cases(tier):
    maxlen = 2 if tier == "quick" else 3
    for m in METHODS:
        for t in range(len(TARGETS)):
            for hs in header_sequences(maxlen):
                for b in BODIES:
                    names = [HEADER_ALPHABET[i][0].lower() for i in hs]
                    if b == "none" and ("content-length" in names or "transfer-encoding" in names):
                        continue
                    if tier == "quick" and len(hs) == 2 and (m not in ("GET", "POST", "GE T") or t not in (0, 1, 3, 7)):
                        continue     # quick: full header pairs only for a method/target subset
                    yield (m, t, hs, b)


class _AIter:
    def __init__(self, chunks):
        self.chunks = list(chunks)

    def __aiter__(self):
        async def gen():
            for c in self.chunks:
                yield c
        return gen()


VIA_PROXY_HEADERS = [("X-A", "proxy-default"), ("X-P", "p")]     # collides (case-insensitively) with two alphabet symbols
VIA_TYPES = [c for c in scen.CONN_TYPES if c not in ("h11", "h2pk")]


def via_cases(tier):
    """Request shapes sent over the ten other connection types (TLS, negotiated protocol, forward / tunnel / SOCKS proxies)."""
    if tier != "quick":
        yield from cases("quick")
        return
    for m in ("GET", "POST", "HEAD", "GE T"):
        for t in range(len(TARGETS)):
            for hs in header_sequences(1):
                for b in ("none", "bytes", "iter:a,bc", "iter:"):
                    names = [HEADER_ALPHABET[i][0].lower() for i in hs]
                    if b == "none" and ("content-length" in names or "transfer-encoding" in names):
                        continue
                    yield (m, t, hs, b)


def run_case(case, proto, variant):
    """-> list of violation dicts for this case (sent twice on one pool).  `proto` is "h1" / "h2" (plain direct connection)
    or the name of one of the other connection types."""
    m, t, hs, b = case
    path, target_ext = TARGETS[t]
    chunks, body = body_of(b)
    headers = []
    for i in hs:
        k, v = HEADER_ALPHABET[i]
        if v is None:
            v = str(len(body or b""))
        headers.append((k, v))
    ct = {"h1": "h11", "h2": "h2pk"}.get(proto, proto)
    via = ct if ct != {"h1": "h11", "h2": "h2pk"}.get(proto) else None
    ctd = scen.CONN_TYPES[ct]
    proto = ctd["proto"]
    scheme = ctd["scheme"]
    forwarded = ctd["proxy"] in ("http", "https") and scheme == "http"
    topo = scen.Topology(ctd)
    w = SeqWorld(Chooser([]), topo.router, variant=variant)
    w.env.fp = None
    pool = scen.make_pool(ct, w.backend, variant, **({"proxy_headers": VIA_PROXY_HEADERS} if forwarded else {}))
    url = f"{scheme}://a.example" + path
    ext = {"target": target_ext} if target_ext is not None else {}
    results = []

    def content():
        if chunks is None or isinstance(chunks, bytes):
            return chunks
        return iter(list(chunks)) if variant == "sync" else _AIter(chunks)

    final = []        # a plain request afterwards: whatever the shape did (sent, or rejected locally), the pool must still serve it
    url_final = f"{scheme}://a.example/t/final"
    if variant == "sync":
        def prog():
            for _ in range(2):
                try:
                    r = pool.request(m, url, headers=list(headers), content=content(), extensions=dict(ext))
                    results.append(("ok", r.status))
                except Exception as e:
                    results.append(("exc", e))
            try:
                r = pool.request("GET", url_final)
                final.append(("ok", r.status, r.content))
            except Exception as e:
                final.append(("exc", e))
            pool.close()
        res = w.run(sync_fn=prog)
    else:
        async def aprog():
            for _ in range(2):
                try:
                    r = await pool.request(m, url, headers=list(headers), content=content(), extensions=dict(ext))
                    results.append(("ok", r.status))
                except Exception as e:
                    results.append(("exc", e))
            try:
                r = await pool.request("GET", url_final)
                final.append(("ok", r.status, r.content))
            except Exception as e:
                final.append(("exc", e))
            await pool.aclose()
        res = w.run(async_fn=aprog)

    out = []
    sig = {"harness": "serialise", "proto": proto}
    if via:
        sig["ct"] = via

    def bad(kind, msg):
        out.append({"oracle": "C03." + kind, "message": f"{msg} | proto={proto} ct={ct} variant={variant} method={m!r} target={TARGETS[t]} headers={headers} body={b}",
                    "signature": dict(sig, kind=kind), "case": {"case": [m, t, list(hs), b], "proto": via or proto, "variant": variant}})

    if res[0] != "ok":
        bad("harness-" + res[0], f"program did not finish: {res}")
        return out
    if final[:1] != [("ok", 200, b"<final>")]:
        f0 = final[0] if final else None
        bad("following-request", f"a plain GET sent after this request shape gave {(f0[0], exc_class(f0[1]) + ': ' + str(f0[1])) if f0 and f0[0] == 'exc' else f0}: "
            f"the shape left the pool / connection in a state that breaks later requests (earlier results: {[(r_[0], exc_class(r_[1]) if r_[0] == 'exc' else r_[1]) for r_ in results]})")
    else:
        # ... and it is a request of its own: what the server saw of it names ITS host, whatever the requests before it on the same connection carried
        fin_auth = [v for c in topo.all_h1_conns() for r_ in c.parser.requests if r_.target.endswith(b"/t/final") for k, v in r_.headers if k.lower() == b"host"]
        fin_auth += [v for c in topo.all_h2_conns() for sid in c.order if any(k == b":path" and v.endswith(b"/t/final") for k, v in c.streams[sid].headers)
                     for k, v in c.streams[sid].headers if k in (b":authority", b"host")]
        if fin_auth != [b"a.example"]:
            bad("following-request-authority", f"the plain GET that followed reached the server with Host / :authority {fin_auth}, expected [b'a.example'] (it gave no Host header itself)")
    mb, tb = m.encode(), (target_ext if target_ext is not None else path.encode())
    hb = [(k.encode(), v.encode()) for k, v in headers]
    legal = bool(TOKEN_RE.match(mb)) and bool(TARGET_OK.match(tb)) and all(TOKEN_RE.match(k) and FIELD_VALUE_OK.match(v) for k, v in hb)
    names = [k.lower() for k, _ in hb]
    exp = list(hb)
    if b"host" not in names:
        exp = [(b"Host", b"a.example")] + exp
    if chunks is not None and b"content-length" not in names and b"transfer-encoding" not in names:
        exp.append((b"Content-Length", str(len(body)).encode()) if isinstance(chunks, bytes) else (b"Transfer-Encoding", b"chunked"))
    exp_body = body or b""
    enames = [k.lower() for k, _ in exp]
    framed = b"content-length" in enames or b"transfer-encoding" in enames
    if forwarded:
        # through a forwarding proxy: absolute-form target, the proxy's headers beneath the caller's (C11 judges the proxy
        # side of this; here the caller's own header list must still arrive intact and in order)
        tb = f"{scheme}://a.example".encode() + tb
    proxy_only = [(k.encode(), v.encode()) for k, v in VIA_PROXY_HEADERS if k.lower().encode() not in enames] if forwarded else []

    if proto == "h1":
        conns = topo.all_h1_conns()
        reqs = [r for c in conns for r in c.parser.requests if not r.target.endswith(b"/t/final")]
        errs = [e for c in conns for e in c.parser.errors]
        if not legal:
            for r_ in results:
                if r_[0] != "exc" or not isinstance(r_[1], httpcore.LocalProtocolError):
                    bad("illegal-not-rejected", f"illegal request head gave {r_[0]}:{exc_class(r_[1]) if r_[0] == 'exc' else r_[1]} instead of LocalProtocolError")
            written = sum(len(op.args["data"]) for op in w.net.ledger if op.kind == "write" and b"/t/final" not in op.args["data"])
            if via and ctd["proxy"]:
                # proxy negotiation bytes are legitimate; what counts is what reached the HTTP peer behind / inside the proxy
                written = sum(len(c.parser.buf) + len([q for q in c.parser.requests if not q.target.endswith(b"/t/final")]) + len(c.parser.errors) for c in conns)
            if written:
                bad("illegal-bytes-written", f"{written} bytes written for a request that must be rejected: {bytes(w.net.transports[0].written)[:80]!r}")
            return out
        if errs:
            bad("wire-unparseable", f"independent parser: {errs[:2]}")
            return out
        oks = [r_ for r_ in results if r_[0] == "ok"]
        if len(oks) != 2:
            bad("legal-rejected", f"legal request failed: {[(r_[0], exc_class(r_[1]) if r_[0] == 'exc' else r_[1]) for r_ in results]}")
            return out
        if len(reqs) != 2 or not all(r.complete for r in reqs):
            bad("request-count", f"peer parsed {len(reqs)} requests (complete: {[r.complete for r in reqs]}) for 2 calls")
            return out
        for n, r in enumerate(reqs):
            which = "first use" if n == 0 else "reuse"
            if r.method != mb or r.target != tb:
                bad("request-line", f"{which}: wire has {r.method!r} {r.target!r}")
            wire_nohost = [(k, v) for k, v in r.headers if k.lower() != b"host"]
            for ph in proxy_only:
                # where the proxy's own (not overridden) headers sit is C11's business; each must be there once
                if ph in wire_nohost:
                    wire_nohost.remove(ph)
                else:
                    bad("headers", f"{which}: proxy header {ph} missing from the forwarded request: {r.headers}")
            exp_nohost = [(k, v) for k, v in exp if k.lower() != b"host"]
            if wire_nohost != exp_nohost:
                bad("headers", f"{which}: wire headers {r.headers} expected {exp} (Host may lead)")
            if sorted(v for k, v in r.headers if k.lower() == b"host") != sorted(v for k, v in exp if k.lower() == b"host"):
                bad("host", f"{which}: wire Host {[v for k, v in r.headers if k.lower() == b'host']} expected {[v for k, v in exp if k.lower() == b'host']}")
            if bytes(r.body) != (exp_body if framed else b""):
                bad("body", f"{which}: wire body {bytes(r.body)!r} expected {exp_body!r}")
        return out

    # ---- HTTP/2
    conns = topo.all_h2_conns()
    streams = [c.streams[sid] for c in conns for sid in c.order if not any(k == b":path" and v.endswith(b"/t/final") for k, v in c.streams[sid].headers)]
    complaints = [v for c in conns for v in c.violations]
    if not legal:
        # not judged on HTTP/2: HPACK can encode any octets, the statement's "cannot legally be encoded" is an HTTP/1.1 notion
        return out
    if any(k.lower() == b"te" and v != b"trailers" for k, v in hb):
        # the one shape of the alphabet that HTTP/2 forbids and h2 refuses to send
        for r_ in results:
            if r_[0] != "exc" or not isinstance(r_[1], httpcore.LocalProtocolError):
                bad("illegal-not-rejected", f"TE: gzip on HTTP/2 gave {r_[0]}:{exc_class(r_[1]) if r_[0] == 'exc' else r_[1]} instead of LocalProtocolError")
        if streams:
            bad("illegal-bytes-written", f"{len(streams)} stream(s) opened for a request that must be rejected")
        return out
    if complaints:
        bad("wire-unparseable", f"h2 peer: {complaints[:2]}")
        return out
    oks = [r_ for r_ in results if r_[0] == "ok"]
    if len(oks) != 2:
        bad("legal-rejected", f"legal request failed: {[(r_[0], exc_class(r_[1]) if r_[0] == 'exc' else r_[1]) for r_ in results]}")
        return out
    if len(streams) != 2:
        bad("request-count", f"peer saw {len(streams)} streams for 2 calls")
        return out
    authority = [v for k, v in exp if k.lower() == b"host"][0]
    exp_regular = [(k.lower(), v) for k, v in exp if k.lower() not in (b"host", b"transfer-encoding")]
    for n, s in enumerate(streams):
        which = "first use" if n == 0 else "reuse"
        pseudo = [(k, v) for k, v in s.headers if k.startswith(b":")]
        regular = [(k, v) for k, v in s.headers if not k.startswith(b":")]
        npseudo = len(pseudo)
        if [k for k, _ in s.headers[:npseudo]] != [k for k, _ in pseudo]:
            bad("h2-pseudo-order", f"{which}: pseudo-headers not first: {s.headers}")
        if sorted(pseudo) != sorted([(b":method", mb), (b":scheme", scheme.encode()), (b":authority", authority), (b":path", tb)]):
            bad("h2-pseudo", f"{which}: pseudo-headers {pseudo}")
        if regular != exp_regular:
            bad("headers", f"{which}: h2 headers {regular} expected {exp_regular}")
        if bytes(s.body) != (exp_body if framed else b""):
            bad("body", f"{which}: DATA frames carry {bytes(s.body)!r} expected {exp_body!r}")
        if s.end_count != 1:
            bad("h2-end-stream", f"{which}: END_STREAM seen {s.end_count} times")
    return out


def _chunk_job(args):
    chunk, protos = args
    out = []
    classes = set()
    n = 0
    for case in chunk:
        for proto in protos:
            for variant in ("sync", "async"):
                n += 1
                v = run_case(case, proto, variant)
                out += v[:2]
                classes.add((case[0] in ("GE T", ""), case[1], tuple(sorted({HEADER_ALPHABET[i][0].lower() for i in case[2]})), case[3], proto, bool(v)))
    return n, out, classes


def replay_case(case):
    if "api" in case:
        from . import apiuse
        return apiuse.replay_case(case, ("C03",))
    c = case["case"]
    return run_case((c[0], c[1], tuple(c[2]), c[3]), case["proto"], case["variant"])


def check(tier="quick", seed=0, workers=None, only=None):
    allc = list(cases(tier))
    if only:
        allc = allc[: int(only)] if only.isdigit() else allc
    nw = workers or min(16, os.cpu_count() or 1)
    size = max(1, len(allc) // (nw * 8))
    chunks = [(allc[i:i + size], ("h1", "h2")) for i in range(0, len(allc), size)]
    viac = list(via_cases(tier)) if not only else []
    size = max(1, len(viac) // (nw * 8))
    n_direct = len(chunks)
    chunks += [(viac[i:i + size], tuple(VIA_TYPES)) for i in range(0, len(viac), size)]
    total, viols, classes = 0, [], set()
    via_runs = 0
    with mp.get_context("fork").Pool(nw) as pool:
        for j, (n, v, cl) in enumerate(pool.imap(_chunk_job, chunks)):
            total += n
            via_runs += n if j >= n_direct else 0
            viols += v
            classes |= cl
    from . import conc, common
    cst, cinfo = conc.run_for("C03", tier, seed, workers, only) if not only else (engine.Stats(bound=None), {})
    viols += common.collect(cst, ("C03",))
    total += cst.evaluations
    from . import backends
    bst, binfo = backends.run_for(tier, seed, workers, None, purpose="uploads") if not only else (engine.Stats(bound=2), {})
    viols += common.collect(bst, ("C03",))
    from . import apiuse
    viols += apiuse.run_all(("C03",))[1] if not only else []
    total += bst.evaluations
    samples = [{"method": c[0], "target": repr(TARGETS[c[1]]), "headers": [HEADER_ALPHABET[i][0] for i in c[2]], "body": c[3]}
               for c in allc[:: max(1, len(allc) // 5)][:5]]
    cov = {
        "evaluations": total, "distinct_nontrivial": len(classes), "exhaustive": True,
        "rule": ("full product method x target x header sequence (length <= %d over a 9-symbol alphabet incl. illegal names/values and one HTTP/2-only illegal field) x body form, "
                 "each on HTTP/1.1 and HTTP/2, sync and async, sent twice per pool (first use + reuse); a sub-product of the shapes again over the ten other "
                 "connection types (TLS, ALPN-negotiated, forward / tunnel / SOCKS proxies); distinct class = (illegal method?, target, header-name set, body form, protocol, violated?)"
                 % (2 if tier == "quick" else 3)),
        "samples": samples, "request_shapes": len(allc), "resend_scenarios": cinfo, "sync_send_loop_under_short_writes": binfo,
        "other_connection_types": {"types": VIA_TYPES, "request_shapes": len(viac), "runs": via_runs,
                                   "note": "forward proxy configured with proxy headers that collide with the header alphabet"},
    }
    return {"level": "exploration", "coverage": cov, "violations": viols,
            "assumptions": ["legality judged by the RFC 9110/9112 token / field-value / request-target grammars written out in this file",
                            "illegal heads are judged on HTTP/1.1 only (HPACK can encode any octets; the clause is an HTTP/1.1 notion)",
                            "transparent re-sends: GOAWAY-refused streams and HTTP/1.1-fallback races are explored on the virtual loop (resend_scenarios); every transmission the peers decode must carry the caller's body"]}
