"""C06 — every network stream that is opened is eventually closed (same explorations as C05, stream-ownership oracle)."""
from . import c05


def check(tier="quick", seed=0, workers=None, only=None):
    return c05.check(tier, seed, workers, only, pid="C06", prefixes=("C06",))


def replay_case(case):
    """Case-based violations of C06 come from the peer-input corpus (mc.props.c15) and from the API-use cases (mc.props.apiuse)."""
    if "api" in case:
        from . import apiuse
        return apiuse.replay_case(case, ("C06",))
    from . import c15
    return [v for v in c15.replay_all(case) if v["oracle"].startswith("C06.")]
