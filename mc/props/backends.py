"""The real network backends (httpcore/_backends/sync.py, anyio.py, trio.py) inside the explored path.

One caller on the sequential world; the pool is given the *real* backend object; underneath it the
OS / runtime calls are the fakes of mc.simnet.fakeos, backed by the simulated network.  Every OS-level
operation may be answered with every OS / runtime level exception of that runtime's alphabet (one
fault per execution = deviation bound 1, complete; optionally short writes of the sync send loop).

Oracles (shared by C15, C16, C06, C05 - each check collects its own prefix):
  C15  the caller sees a documented httpcore exception whose class matches the failed operation
       (connect / TLS -> ConnectError|ConnectTimeout, recv -> ReadError|ReadTimeout, send -> WriteError|WriteTimeout)
  C16  every OS-level operation carries a limit: the timeout in effect *at the operation* (settimeout value,
       innermost fail_after scope) equals the request's connect / read / write value
  C06  no socket is left open after the failure + pool close;  C05  the pool forgets the request; a follow-up works
"""
from __future__ import annotations

import httpcore

from .. import engine, scen
from ..engine import Execution, Violation, make_spec
from ..seqworld import SeqWorld, exc_class, documented_exception
from ..simnet import core as sim
from ..simnet import fakeos

MOD = "mc.props.backends"
TIMEOUTS = {"connect": 1.0, "read": 2.0, "write": 3.0, "pool": 4.0}
RUNTIMES = ("sync", "anyio", "trio")


def _expected(fault_op, name):
    soft = name in fakeos.SOFT
    if fault_op.startswith("connect") or fault_op == "start_tls":
        return httpcore.ConnectTimeout if soft else httpcore.ConnectError
    if fault_op == "read":
        return httpcore.ReadTimeout if soft else httpcore.ReadError
    return httpcore.WriteTimeout if soft else httpcore.WriteError


class BackendHarness:
    horizon = 3000

    def __init__(self, runtime, ct, method="GET", warm=False, short_writes=False, uds=False, timeouts="all", consume="request",
                 body="bytes", early=False, payload=7, retries=0, framing=None):
        self.framing = framing        # None (Content-Length) | "close" | "http10" | "chunked" | "interim": how the server frames the answer (C02: the
                                      # runtime's end-of-stream convention must end a close-delimited body, not break it)
        self.retries = retries        # connection retries of the pool (C20: establishment failures of the real backends are retried)
        self.consume = consume        # "request" | "close-mid-body" (close-delimited response, pool closed after the first chunk, iteration continues)
        self.body = body              # "bytes" | "iter" (chunked upload on HTTP/1.1)
        self.early = early            # the server answers as soon as it has the request head
        self.payload = payload        # upload size in bytes
        self.runtime = runtime
        self.variant = "sync" if runtime == "sync" else "async"
        self.ct = ct
        self.method = method
        self.warm = warm
        self.short_writes = short_writes
        self.uds = uds
        self.timeouts = timeouts

    def _cfg(self):
        if self.timeouts in ("all", True):
            return dict(TIMEOUTS)
        if self.timeouts == "connect-only":
            return {"connect": TIMEOUTS["connect"]}
        if self.timeouts == "read-only":
            return {"read": TIMEOUTS["read"]}
        return None

    def _backend(self):
        if self.runtime == "sync":
            from httpcore._backends.sync import SyncBackend
            return SyncBackend()
        if self.runtime == "anyio":
            from httpcore._backends.anyio import AnyIOBackend
            return AnyIOBackend()
        from httpcore._backends.trio import TrioBackend
        return TrioBackend()

    def run(self, chooser) -> Execution:
        fakeos.install()
        ct = self.ct
        topo = scen.Topology(scen.CONN_TYPES[ct], respond_at="head" if self.early else "complete",
                             **({"framing": "close"} if self.consume == "close-mid-body" else ({"framing": self.framing} if self.framing else {})))
        log: dict = {}
        w = SeqWorld(chooser, topo.router, variant=self.variant, merge_roots=[log], faults=0, fault_kinds=fakeos.ALPHABET[self.runtime])
        w.env.short_writes = False
        fakeos.CURRENT[0] = w.backend
        del fakeos._SCOPES[:]
        kw = {"uds": "/run/sock"} if self.uds else {}
        if self.retries:
            kw["retries"] = self.retries
        pool = scen.make_pool(ct, self._backend(), self.variant, max_connections=2, **kw)
        w.roots.append(pool)
        cfg = self._cfg()
        ext = {"timeout": dict(cfg)} if cfg is not None else {}
        payload = (b"payload-" * (self.payload // 8 + 1))[:self.payload]
        log["payload"] = payload if self.method == "POST" else None
        is_sync = self.variant == "sync"

        def mkbody():
            if self.method != "POST":
                return None
            if self.body == "bytes":
                return payload
            parts = [payload[:3], payload[3:5], payload[5:]]
            if is_sync:
                return iter(parts)

            async def agen():
                for c_ in parts:
                    yield c_
            return agen()
        url_v, url_w, url_a = (scen.url_for(ct, token=t) for t in ("victim", "warm", "after"))

        def arm():
            w.env.faults = 1
            w.env.short_writes = self.short_writes

        def disarm():
            w.env.faults = 0
            w.env.short_writes = False

        if self.variant == "sync":
            def prog():
                if self.warm:
                    r = pool.request("GET", url_w, extensions=dict(ext))
                    log["warm"] = (r.status, r.content)
                arm()
                try:
                    if self.consume == "request":
                        r = pool.request(self.method, url_v, content=mkbody(), extensions=dict(ext))
                        log["victim"] = ("ok", r.status, r.content)
                    else:
                        with pool.stream(self.method, url_v, content=mkbody(), extensions=dict(ext)) as r:
                            it = r.iter_stream()
                            first = next(it, b"")
                            pool.close()
                            rest = b"".join(it)
                            log["victim"] = ("ok", r.status, first + rest)
                except Exception as e:
                    log["victim"] = ("exc", e)
                finally:
                    disarm()
                log["after"] = scen.pool_summary(pool)
                try:
                    r = pool.request("GET", url_a, extensions={"timeout": dict(cfg or {}, pool=0)})
                    log["followup"] = ("ok", r.status, r.content)
                except Exception as e:
                    log["followup"] = ("exc", e)
                pool.close()
            res = w.run(sync_fn=prog)
        else:
            async def aprog():
                if self.warm:
                    r = await pool.request("GET", url_w, extensions=dict(ext))
                    log["warm"] = (r.status, r.content)
                arm()
                try:
                    if self.consume == "request":
                        r = await pool.request(self.method, url_v, content=mkbody(), extensions=dict(ext))
                        log["victim"] = ("ok", r.status, r.content)
                    else:
                        async with pool.stream(self.method, url_v, content=mkbody(), extensions=dict(ext)) as r:
                            it = r.aiter_stream().__aiter__()
                            try:
                                first = await it.__anext__()
                            except StopAsyncIteration:
                                first = b""
                            await pool.aclose()
                            rest = b""
                            async for c_ in it:
                                rest += c_
                            log["victim"] = ("ok", r.status, first + rest)
                except Exception as e:
                    log["victim"] = ("exc", e)
                finally:
                    disarm()
                log["after"] = scen.pool_summary(pool)
                try:
                    r = await pool.request("GET", url_a, extensions={"timeout": dict(cfg or {}, pool=0)})
                    log["followup"] = ("ok", r.status, r.content)
                except Exception as e:
                    log["followup"] = ("exc", e)
                await pool.aclose()
            res = w.run(async_fn=aprog)
        fakeos.CURRENT[0] = None
        return self.judge(w, topo, log, res)

    def judge(self, w, topo, log, res) -> Execution:
        ex = Execution()
        ex.notes["unmergeable"] = sorted(w.unmergeable)
        inj = w.env.injected
        ledger = w.net.ledger
        ex.trace = [op.rec() for op in ledger]
        ex.nontrivial = bool(inj) or any(p[0].startswith("send[") and p[2] for p in getattr(w.chooser, "points", []))
        sig = {"harness": "backend", "runtime": self.runtime, "ct": self.ct}
        desc = None
        if inj:
            op = ledger[inj[0][0]]
            desc = f"{inj[0][1]}@{op.kind}(layer {op.layer})"
            sig.update(fault=inj[0][1], fault_op=op.kind)
        vic = log.get("victim")
        vdesc = "none" if vic is None else ("exc:" + exc_class(vic[1]) if vic[0] == "exc" else f"ok:{vic[1]}")

        def viol(prop, kind, msg, **extra):
            ex.violations.append(Violation(f"{prop}.{kind}", f"{msg} | backend={self.runtime} ct={self.ct} method={self.method} warm={self.warm} uds={self.uds} "
                                           f"fault={desc} victim={vdesc}", dict(sig, kind=kind, **extra)))

        if res[0] != "ok":
            if self.short_writes and not inj and log.get("payload") is not None:
                # nothing failed, the kernel merely took some writes in pieces: the request must still arrive whole
                prop = "C13" if scen.CONN_TYPES[self.ct]["proto"] == "h2" else "C03"
                viol(prop, "upload-body", f"after short writes the exchange did not complete ({res[0]}): bytes of the request were lost, repeated or reordered on the wire")
            if res[0] == "exc":
                viol("C15", "program-error", f"caller program raised {exc_class(res[1])}: {res[1]}", leaked=exc_class(res[1]))
            else:
                viol("C15", "hang", f"caller did not terminate: {res}")
            ex.outcome = res[0]
            return ex
        # ---- C15
        if vic[0] == "exc":
            e = vic[1]
            if not documented_exception(e):
                viol("C15", "undocumented-exception", f"{exc_class(e)}: {e}", leaked=exc_class(e))
            elif inj:
                name = inj[-1][1]
                fop = ledger[inj[-1][0]].kind
                want = _expected(fop, name)
                hard_write = fop == "write" and name not in fakeos.SOFT
                if not isinstance(e, want) and not (hard_write and isinstance(e, (httpcore.RemoteProtocolError, httpcore.ReadError))):
                    viol("C15", "wrong-class", f"{name} raised by the OS-level {fop} surfaced as {exc_class(e)} (expected {want.__name__}): {e}", got=exc_class(e))
            elif self.consume == "close-mid-body":
                pass        # the caller closed the pool under its own response: any documented error is an acceptable answer
            else:
                viol("C15", "spurious-error", f"nothing failed but the call raised {exc_class(e)}: {e}")
        elif vic[2] != b"<victim>" and self.consume == "request":
            viol("C01", "wrong-body", f"victim got {vic[2]!r}")
        if self.framing in ("close", "http10") and inj and self.consume == "request" and vic[0] == "ok":
            name_, fop_ = inj[-1][1], ledger[inj[-1][0]].kind
            if fop_ == "read" and name_ not in fakeos.SOFT and not b"warm" in bytes(str(ledger[inj[-1][0]].args), "latin1"):
                # a close-delimited body ends with the peer's orderly close; a connection that BREAKS instead has not delivered a complete body
                viol("C02", "silent-truncation", f"{name_} raised by the OS-level read of a {self.framing}-delimited body, yet the call returned a body ({vic[2]!r}) as if the "
                     f"server had closed in good order", framing=self.framing)
        if self.framing and not inj and self.consume == "request":
            if vic[0] == "exc":
                viol("C02", "framed-body-error", f"a well-formed {self.framing}-framed response, nothing failed, yet the call raised {exc_class(vic[1])}: {vic[1]}", framing=self.framing)
            elif vic[2] != b"<victim>":
                viol("C02", "body", f"{self.framing}-framed response delivered as {vic[2]!r}", framing=self.framing)
        if self.short_writes and not inj and log.get("payload") is not None and vic[0] == "exc":
            prop = "C13" if scen.CONN_TYPES[self.ct]["proto"] == "h2" else "C03"
            viol(prop, "upload-body", f"after short writes (no failure injected) the request failed with {exc_class(vic[1])}: {vic[1]}")
        # ---- the upload as the peer decoded it (short writes of the sync send loop must neither lose, repeat nor reorder bytes)
        if log.get("payload") is not None and vic[0] == "ok" and not inj:
            got = None
            for c in topo.all_h1_conns():
                for q in c.parser.requests:
                    if q.target.endswith(b"/t/victim"):
                        got = bytes(q.body)
            for c in topo.all_h2_conns():
                for sid in c.order:
                    st_ = c.streams[sid]
                    if any(k == b":path" and v.endswith(b"/t/victim") for k, v in st_.headers):
                        got = bytes(st_.body)
            if got != log["payload"]:
                prop = "C13" if scen.CONN_TYPES[self.ct]["proto"] == "h2" else "C03"
                viol(prop, "upload-body", f"the server decoded an upload of {None if got is None else len(got)} bytes {got[:40] if got else got!r}, the caller sent {len(log['payload'])} bytes {log['payload'][:40]!r}")
        # ---- C20: a failure of the TCP / TLS stage is a connect error or connect timeout, whatever the runtime calls it: retried
        if self.retries and inj and not scen.CONN_TYPES[self.ct]["proxy"]:
            fop = ledger[inj[0][0]].kind
            if fop.startswith("connect") or fop == "start_tls":
                attempts = sum(1 for op in ledger if op.kind.startswith("connect") and b"after" not in str(op.args).encode())
                if vic[0] != "ok":
                    viol("C20", "not-retried", f"{inj[0][1]} at the OS-level {fop} with retries={self.retries}: the request failed with "
                         f"{exc_class(vic[1]) if vic[0] == 'exc' else vic} instead of being retried ({attempts} connection attempts, pauses {w.net.sleeps})")
                elif w.net.sleeps[:1] != [0]:
                    viol("C20", "backoff", f"retry after {inj[0][1]}@{fop}: pauses {w.net.sleeps}, expected [0]")
        fu = log.get("followup")
        if fu is not None and not (fu[0] == "ok" and fu[1] == 200 and fu[2] == b"<after>"):
            viol("C01", "followup", f"the request that followed gave {fu[0]}:{exc_class(fu[1]) if fu[0] == 'exc' else fu[1:]}")
        # ---- C16: the limit in effect at every OS-level operation
        cfg = self._cfg()
        if cfg is not None:
            proxied = bool(scen.CONN_TYPES[self.ct]["proxy"])
            first_victim_op = None
            for op in ledger:
                if op.kind not in ("connect_tcp", "connect_unix", "start_tls", "read", "write"):
                    continue
                t = op.args.get("timeout")
                establishing = op.kind in ("connect_tcp", "connect_unix", "start_tls")
                want = cfg.get("connect") if establishing else cfg.get(op.kind)
                if t == fakeos.NO_SCOPE:
                    viol("C16", "no-limit-at-os-operation", f"{op.kind} #{op.i} was issued with no time limit applied at all (neither a value nor an explicit 'unlimited'); request configured {cfg}", op=op.kind)
                    break
                # proxy negotiation reads / writes may carry any of the configured values (never one that was not configured);
                # opening the socket and every TLS handshake use the connect timeout, always
                lenient = proxied and not establishing and t in (cfg.get("connect"), cfg.get("read"), cfg.get("write"))
                if t != want and not lenient:
                    viol("C16", "wrong-limit-at-os-operation", f"{op.kind} #{op.i} ran under a limit of {t}, the request's {'connect' if establishing else op.kind} timeout is {want} (configuration {cfg}; absent = unlimited)", op=op.kind)
                    break
        # ---- C05 / C06
        after = log.get("after")
        if after is not None and (after["requests"] != 0 or "Requests: 0 active, 0 queued" not in after["repr"]):
            viol("C05", "request-still-counted", f"pool after the call: {after['repr']}")
        still = [repr(t) for t in w.net.open_transports()]
        if still:
            viol("C06", "open-after-pool-close", f"sockets still open after pool.close(): {still}")
        for c in topo.all_h1_conns():
            if c.parser.errors:
                viol("C03", "h1-peer-complaint", f"{c.parser.errors[:2]}")
        for c in topo.all_h2_conns():
            if c.violations:
                viol("C03", "h2-peer-complaint", f"{c.violations[:2]}")
        ex.outcome = f"{vdesc}|inj={desc}|fu={fu[0] if fu else None}"
        return ex


def specs(tier, purpose="all"):
    """(deviation bound, spec) pairs.  purpose: "all" (C15 / C16 / C05 / C06) or the subset a single property needs:
    "uploads" (C03 / C13: the sync send loop under short writes), "early" (C01: early answer to a streamed upload, then a follow-up)."""
    out = []
    quick = tier == "quick"
    cts = ["h11", "h11tls", "h2alpn", "tunnel", "socks-auth-tls"] if quick else list(scen.CONN_TYPES)
    if purpose == "all":
        for rt in RUNTIMES:
            for ct in cts:
                for method in ("GET", "POST"):
                    for warm in (False, True):
                        if quick and warm and method == "POST":
                            continue
                        out.append((1, make_spec(MOD, "BackendHarness", runtime=rt, ct=ct, method=method, warm=warm)))
                # a request that configures only some of the limits: the others mean unlimited, also on a reused socket
                for tcfg in ("connect-only", "read-only"):
                    out.append((1, make_spec(MOD, "BackendHarness", runtime=rt, ct=ct, method="POST", warm=True, timeouts=tcfg)))
                # the caller closes the pool under its own streaming response and keeps iterating
                if scen.CONN_TYPES[ct]["proto"] == "h1":
                    out.append((1, make_spec(MOD, "BackendHarness", runtime=rt, ct=ct, method="GET", consume="close-mid-body")))
            out.append((1, make_spec(MOD, "BackendHarness", runtime=rt, ct="h11", method="POST", uds=True)))
    if purpose in ("all", "uploads"):
        # the send loop of the sync backend under short writes (with one fault on top)
        for ct in (["h11", "h11tls", "h2pk"] if quick else ["h11", "h11tls", "h2pk", "h2alpn", "tunnel", "tunnel-s", "socks"]):
            out.append((2, make_spec(MOD, "BackendHarness", runtime="sync", ct=ct, method="POST", short_writes=True, payload=23)))
    if purpose == "retries":
        for rt in RUNTIMES:
            for ct in ("h11", "h11tls", "h2alpn"):
                out.append((1, make_spec(MOD, "BackendHarness", runtime=rt, ct=ct, method="GET", retries=1)))
    if purpose == "framings":
        for rt in RUNTIMES:
            for ct in (["h11", "h11tls"] if quick else ["h11", "h11tls", "fwd", "tunnel", "socks"]):
                for fr in ("close", "http10", "chunked", "interim"):
                    for warm in (False, True):
                        if quick and warm and fr in ("chunked", "interim"):
                            continue
                        out.append((1, make_spec(MOD, "BackendHarness", runtime=rt, ct=ct, method="GET", warm=warm, framing=fr)))
    if purpose in ("all", "early"):
        # a streamed upload answered early, one failure anywhere, then a follow-up request on the same pool
        for rt in RUNTIMES:
            for ct in (["h11"] if quick else ["h11", "h11tls", "fwd", "tunnel"]):
                out.append((1, make_spec(MOD, "BackendHarness", runtime=rt, ct=ct, method="POST", body="iter", early=True, warm=True)))
    return out


def run_for(tier, seed, workers, only=None, purpose="all"):
    from . import common
    sp = specs(tier, purpose)
    total = engine.Stats(bound=1)
    n = 0
    for b in sorted({b for b, _ in sp}):
        sub = common.filt([s for bb, s in sp if bb == b], only)
        if sub:
            n += len(sub)
            total.merge_from(engine.explore_many(sub, workers=workers, bound=b, seed=seed, max_violations=400))
    info = {"scenarios": n, "executions": total.evaluations, "states": total.states,
            "what": ("real SyncBackend / AnyIOBackend / TrioBackend objects over fake OS-level sockets and streams backed by the simulated network; "
                     "every OS-level operation x every exception of that runtime's alphabet (bound 1), sync send loop under short writes (bound 2)"),
            "alphabet": fakeos.ALPHABET}
    return total, info
