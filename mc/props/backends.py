"""The real network backends (httpcore/_backends/sync.py, anyio.py, trio.py) inside the explored path.

One caller on the sequential world; the pool is given the *real* backend object; underneath it the
OS / runtime calls are the fakes of mc.simnet.fakeos, backed by the simulated network.  Every OS-level
operation may be answered with every OS / runtime level exception of that runtime's alphabet (one
fault per execution = deviation bound 1, complete; optionally short writes of the sync send loop).

Oracles (shared by C15, C16, C06, C05 - each check collects its own prefix):
  C15  the caller sees a documented httpcore exception whose class matches the failed operation
       (connect / TLS -> ConnectError|ConnectTimeout, recv -> ReadError|ReadTimeout, send -> WriteError|WriteTimeout)
  C16  every OS-level operation carries a limit: the timeout in effect *at the operation* (settimeout value,
       innermost fail_after scope) equals the request's connect / read / write value
  C06  no socket is left open after the failure + pool close;  C05  the pool forgets the request; a follow-up works
"""
from __future__ import annotations

import httpcore

from .. import engine, scen
from ..engine import Execution, Violation, make_spec
from ..seqworld import SeqWorld, exc_class, documented_exception
from ..simnet import core as sim
from ..simnet import fakeos

MOD = "mc.props.backends"
TIMEOUTS = {"connect": 1.0, "read": 2.0, "write": 3.0, "pool": 4.0}
RUNTIMES = ("sync", "anyio", "trio")


def _expected(fault_op, name):
    soft = name in fakeos.SOFT
    if fault_op.startswith("connect") or fault_op == "start_tls":
        return httpcore.ConnectTimeout if soft else httpcore.ConnectError
    if fault_op == "read":
        return httpcore.ReadTimeout if soft else httpcore.ReadError
    return httpcore.WriteTimeout if soft else httpcore.WriteError


class BackendHarness:
    horizon = 3000

    def __init__(self, runtime, ct, method="GET", warm=False, short_writes=False, uds=False, timeouts=True):
        self.runtime = runtime
        self.variant = "sync" if runtime == "sync" else "async"
        self.ct = ct
        self.method = method
        self.warm = warm
        self.short_writes = short_writes
        self.uds = uds
        self.timeouts = timeouts

    def _backend(self):
        if self.runtime == "sync":
            from httpcore._backends.sync import SyncBackend
            return SyncBackend()
        if self.runtime == "anyio":
            from httpcore._backends.anyio import AnyIOBackend
            return AnyIOBackend()
        from httpcore._backends.trio import TrioBackend
        return TrioBackend()

    def run(self, chooser) -> Execution:
        fakeos.install()
        ct = self.ct
        topo = scen.Topology(scen.CONN_TYPES[ct])
        log: dict = {}
        w = SeqWorld(chooser, topo.router, variant=self.variant, merge_roots=[log], faults=0, fault_kinds=fakeos.ALPHABET[self.runtime])
        w.env.short_writes = False
        fakeos.CURRENT[0] = w.backend
        del fakeos._SCOPES[:]
        kw = {"uds": "/run/sock"} if self.uds else {}
        pool = scen.make_pool(ct, self._backend(), self.variant, max_connections=2, **kw)
        w.roots.append(pool)
        ext = {"timeout": dict(TIMEOUTS)} if self.timeouts else {}
        body = b"payload" if self.method == "POST" else None
        url_v, url_w, url_a = (scen.url_for(ct, token=t) for t in ("victim", "warm", "after"))

        def arm():
            w.env.faults = 1
            w.env.short_writes = self.short_writes

        def disarm():
            w.env.faults = 0
            w.env.short_writes = False

        if self.variant == "sync":
            def prog():
                if self.warm:
                    r = pool.request("GET", url_w, extensions=dict(ext))
                    log["warm"] = (r.status, r.content)
                arm()
                try:
                    r = pool.request(self.method, url_v, content=body, extensions=dict(ext))
                    log["victim"] = ("ok", r.status, r.content)
                except Exception as e:
                    log["victim"] = ("exc", e)
                finally:
                    disarm()
                log["after"] = scen.pool_summary(pool)
                try:
                    r = pool.request("GET", url_a, extensions={"timeout": dict(TIMEOUTS, pool=0)})
                    log["followup"] = ("ok", r.status, r.content)
                except Exception as e:
                    log["followup"] = ("exc", e)
                pool.close()
            res = w.run(sync_fn=prog)
        else:
            async def aprog():
                if self.warm:
                    r = await pool.request("GET", url_w, extensions=dict(ext))
                    log["warm"] = (r.status, r.content)
                arm()
                try:
                    r = await pool.request(self.method, url_v, content=body, extensions=dict(ext))
                    log["victim"] = ("ok", r.status, r.content)
                except Exception as e:
                    log["victim"] = ("exc", e)
                finally:
                    disarm()
                log["after"] = scen.pool_summary(pool)
                try:
                    r = await pool.request("GET", url_a, extensions={"timeout": dict(TIMEOUTS, pool=0)})
                    log["followup"] = ("ok", r.status, r.content)
                except Exception as e:
                    log["followup"] = ("exc", e)
                await pool.aclose()
            res = w.run(async_fn=aprog)
        fakeos.CURRENT[0] = None
        return self.judge(w, topo, log, res)

    def judge(self, w, topo, log, res) -> Execution:
        ex = Execution()
        ex.notes["unmergeable"] = sorted(w.unmergeable)
        inj = w.env.injected
        ledger = w.net.ledger
        ex.trace = [op.rec() for op in ledger]
        ex.nontrivial = bool(inj) or any(p[0].startswith("send[") and p[2] for p in getattr(w.chooser, "points", []))
        sig = {"harness": "backend", "runtime": self.runtime, "ct": self.ct}
        desc = None
        if inj:
            op = ledger[inj[0][0]]
            desc = f"{inj[0][1]}@{op.kind}(layer {op.layer})"
            sig.update(fault=inj[0][1], fault_op=op.kind)
        vic = log.get("victim")
        vdesc = "none" if vic is None else ("exc:" + exc_class(vic[1]) if vic[0] == "exc" else f"ok:{vic[1]}")

        def viol(prop, kind, msg, **extra):
            ex.violations.append(Violation(f"{prop}.{kind}", f"{msg} | backend={self.runtime} ct={self.ct} method={self.method} warm={self.warm} uds={self.uds} "
                                           f"fault={desc} victim={vdesc}", dict(sig, kind=kind, **extra)))

        if res[0] != "ok":
            if res[0] == "exc":
                viol("C15", "program-error", f"caller program raised {exc_class(res[1])}: {res[1]}", leaked=exc_class(res[1]))
            else:
                viol("C15", "hang", f"caller did not terminate: {res}")
            ex.outcome = res[0]
            return ex
        # ---- C15
        if vic[0] == "exc":
            e = vic[1]
            if not documented_exception(e):
                viol("C15", "undocumented-exception", f"{exc_class(e)}: {e}", leaked=exc_class(e))
            elif inj:
                name = inj[-1][1]
                fop = ledger[inj[-1][0]].kind
                want = _expected(fop, name)
                hard_write = fop == "write" and name not in fakeos.SOFT
                if not isinstance(e, want) and not (hard_write and isinstance(e, (httpcore.RemoteProtocolError, httpcore.ReadError))):
                    viol("C15", "wrong-class", f"{name} raised by the OS-level {fop} surfaced as {exc_class(e)} (expected {want.__name__}): {e}", got=exc_class(e))
            else:
                viol("C15", "spurious-error", f"nothing failed but the call raised {exc_class(e)}: {e}")
        elif vic[2] != b"<victim>":
            viol("C01", "wrong-body", f"victim got {vic[2]!r}")
        fu = log.get("followup")
        if fu is not None and not (fu[0] == "ok" and fu[1] == 200 and fu[2] == b"<after>"):
            viol("C01", "followup", f"the request that followed gave {fu[0]}:{exc_class(fu[1]) if fu[0] == 'exc' else fu[1:]}")
        # ---- C16: the limit in effect at every OS-level operation
        if self.timeouts:
            proxied = bool(scen.CONN_TYPES[self.ct]["proxy"])
            for op in ledger:
                if op.kind not in ("connect_tcp", "connect_unix", "start_tls", "read", "write"):
                    continue
                t = op.args.get("timeout")
                want = TIMEOUTS["connect"] if op.kind in ("connect_tcp", "connect_unix", "start_tls") else TIMEOUTS[op.kind]
                if t == fakeos.NO_SCOPE or t is None:
                    viol("C16", "no-limit-at-os-operation", f"{op.kind} #{op.i} was issued with no time limit in effect ({t}) although the request configured {TIMEOUTS}", op=op.kind)
                    break
                if t != want and not (proxied and t in (TIMEOUTS["connect"], TIMEOUTS["read"], TIMEOUTS["write"])):
                    viol("C16", "wrong-limit-at-os-operation", f"{op.kind} #{op.i} ran under a limit of {t}s, the request's {('connect' if want == 1.0 else op.kind)} timeout is {want}s", op=op.kind)
                    break
        # ---- C05 / C06
        after = log.get("after")
        if after is not None and (after["requests"] != 0 or "Requests: 0 active, 0 queued" not in after["repr"]):
            viol("C05", "request-still-counted", f"pool after the call: {after['repr']}")
        still = [repr(t) for t in w.net.open_transports()]
        if still:
            viol("C06", "open-after-pool-close", f"sockets still open after pool.close(): {still}")
        for c in topo.all_h1_conns():
            if c.parser.errors:
                viol("C03", "h1-peer-complaint", f"{c.parser.errors[:2]}")
        for c in topo.all_h2_conns():
            if c.violations:
                viol("C03", "h2-peer-complaint", f"{c.violations[:2]}")
        ex.outcome = f"{vdesc}|inj={desc}|fu={fu[0] if fu else None}"
        return ex


def specs(tier):
    out = []
    quick = tier == "quick"
    cts = ["h11", "h11tls", "h2alpn", "tunnel", "socks-auth-tls"] if quick else list(scen.CONN_TYPES)
    for rt in RUNTIMES:
        for ct in cts:
            for method in ("GET", "POST"):
                for warm in (False, True):
                    if quick and warm and method == "POST":
                        continue
                    out.append((1, make_spec(MOD, "BackendHarness", runtime=rt, ct=ct, method=method, warm=warm)))
        out.append((1, make_spec(MOD, "BackendHarness", runtime=rt, ct="h11", method="POST", uds=True)))
    # the send loop of the sync backend under short writes (with one fault on top)
    for ct in (["h11", "h11tls"] if quick else ["h11", "h11tls", "h2alpn", "tunnel", "tunnel-s", "socks"]):
        out.append((2, make_spec(MOD, "BackendHarness", runtime="sync", ct=ct, method="POST", short_writes=True)))
    return out


def run_for(tier, seed, workers, only=None):
    from . import common
    sp = specs(tier)
    total = engine.Stats(bound=1)
    n = 0
    for b in sorted({b for b, _ in sp}):
        sub = common.filt([s for bb, s in sp if bb == b], only)
        if sub:
            n += len(sub)
            total.merge_from(engine.explore_many(sub, workers=workers, bound=b, seed=seed, max_violations=400))
    info = {"scenarios": n, "executions": total.evaluations, "states": total.states,
            "what": ("real SyncBackend / AnyIOBackend / TrioBackend objects over fake OS-level sockets and streams backed by the simulated network; "
                     "every OS-level operation x every exception of that runtime's alphabet (bound 1), sync send loop under short writes (bound 2)"),
            "alphabet": fakeos.ALPHABET}
    return total, info
