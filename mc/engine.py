"""Replay-based explicit-state / deviation-bounded explorer.

A *harness* is a deterministic function of a finite choice sequence.  It asks
``chooser.choose(n, label, cost=…, fp=…)`` whenever the environment has more
than one possible answer; choice 0 is the default (boring) answer, any other
choice is a deviation of the given cost.  A state is represented by the choice
sequence reaching it and is rebuilt by re-execution on fresh objects.

The explorer walks the tree of choice sequences breadth first, merges states by
their canonical fingerprint (when the harness supplies one) and bounds the
number of deviations when asked to.  Everything here is independent of httpcore.
"""
from __future__ import annotations

import hashlib
import importlib
import json
import os
import random
import sys
import time
import traceback
from dataclasses import dataclass, field
from typing import Any, Callable


class MachineryError(Exception):
    """A defect of the checker itself (non-determinism, bad replay...)."""


class ReplayDivergence(MachineryError):
    pass


class Chooser:
    """Feeds a recorded prefix of choices, then defaults (0)."""

    __slots__ = ("prefix", "labels", "points", "want_fp", "horizon", "stop", "used")

    def _mc_state(self):
        return "chooser"

    def __init__(self, prefix=(), labels=None, want_fp=True, horizon=100000, stop=None):
        self.prefix = list(prefix)
        self.labels = labels  # optional list of (label, arity) expected in the prefix
        self.points: list[list] = []  # [label, arity, chosen, cost, fp]
        self.want_fp = want_fp
        self.horizon = horizon
        self.stop = stop      # in-process explorer: stop(fp, used_cost) -> True once the walk would stop here anyway
        self.used = 0

    def choose(self, n: int, label: str, *, cost: int = 1, fp: Callable[[], bytes] | None = None) -> int:
        i = len(self.points)
        if i >= self.horizon:
            raise MachineryError(f"choice horizon {self.horizon} exceeded at {label}")
        if n < 1:
            raise MachineryError(f"choose() with arity {n} at {label}")
        if i < len(self.prefix):
            c = self.prefix[i]
            if self.labels is not None and i < len(self.labels):
                el, ea = self.labels[i]
                if el != label or ea != n:
                    raise ReplayDivergence(
                        f"replay divergence at point {i}: recorded ({el!r},{ea}) now ({label!r},{n})"
                    )
            if not 0 <= c < n:
                raise ReplayDivergence(f"replayed choice {c} out of range {n} at point {i} ({label})")
            f = None
            if c:
                self.used += cost[c] if isinstance(cost, list) else cost
        else:
            c = 0
            f = fp() if (fp is not None and self.want_fp) else None
            if f is not None and self.stop is not None and self.stop(f, self.used):
                self.want_fp = False      # the explorer stops walking at this point; later fingerprints are not needed
        self.points.append([label, n, c, cost, f])
        return c

    @property
    def in_replay(self) -> bool:
        return len(self.points) < len(self.prefix)


@dataclass
class Violation:
    oracle: str
    message: str
    signature: dict = field(default_factory=dict)
    step: int = -1

    def to_json(self):
        return {"oracle": self.oracle, "message": self.message, "signature": self.signature, "step": self.step}


@dataclass
class Execution:
    outcome: Any = None                 # hashable end-state class
    violations: list = field(default_factory=list)
    trace: list = field(default_factory=list)   # JSON-able observations
    nontrivial: bool = False
    notes: dict = field(default_factory=dict)


# ---------------------------------------------------------------- harness registry

_HARNESS_CACHE: dict = {}


def build_harness(spec):
    """spec = (module, factory, params_json)"""
    key = spec if isinstance(spec, tuple) else tuple(spec)
    h = _HARNESS_CACHE.get(key)
    if h is None:
        mod = importlib.import_module(key[0])
        h = getattr(mod, key[1])(**json.loads(key[2]))
        _HARNESS_CACHE[key] = h
    return h


def make_spec(module: str, factory: str, **params):
    return (module, factory, json.dumps(params, sort_keys=True))


def _digest(obj) -> str:
    return hashlib.blake2b(json.dumps(obj, sort_keys=True, default=repr).encode(), digest_size=12).hexdigest()


class SpinTimeout(BaseException):
    """Raised (from a CPU-time alarm) inside an execution that has burnt SPIN_LIMIT seconds of CPU without finishing: library code
    spinning in a loop that contains no scheduling or choice point (every harness has a step horizon, but a loop without steps never
    reaches it).  The worlds turn it into a livelock verdict of that execution."""


SPIN_LIMIT = 30.0      # seconds of CPU time of the worker process for ONE execution (ordinary executions take milliseconds)


_SPINS = [0]


def _spin_handler(signum, frame):
    _SPINS[0] += 1
    raise SpinTimeout(f"execution used more than {SPIN_LIMIT}s of CPU without reaching a scheduling point")


def _arm_spin_alarm():
    import signal
    import threading
    if threading.current_thread() is not threading.main_thread():
        return False
    signal.signal(signal.SIGVTALRM, _spin_handler)
    signal.setitimer(signal.ITIMER_VIRTUAL, SPIN_LIMIT)
    return True


def _disarm_spin_alarm():
    import signal
    signal.setitimer(signal.ITIMER_VIRTUAL, 0)


_CACHED_FUNCS = None


def reset_library_caches():
    """Workers are long-lived: a memoising wrapper (functools.cache / lru_cache) on a function of the library would carry state
    from one execution into the next and make a replayed prefix diverge.  Every such cache of an httpcore module is cleared before
    each execution, so whatever a cache does wrong shows *within* one execution, where the oracles can see it."""
    global _CACHED_FUNCS
    if _CACHED_FUNCS is None:
        import sys as _sys
        if "httpcore" not in _sys.modules:
            return
        found = []
        for name, mod in list(_sys.modules.items()):
            if mod is None or not (name == "httpcore" or name.startswith("httpcore.")):
                continue
            for obj in list(vars(mod).values()):
                members = [obj]
                if isinstance(obj, type) and getattr(obj, "__module__", "").startswith("httpcore"):
                    members += list(vars(obj).values())
                for m in members:
                    m = getattr(m, "__func__", m)
                    if callable(getattr(m, "cache_clear", None)) and not any(m is f for f in found):
                        found.append(m)
        _CACHED_FUNCS = found
    for f in _CACHED_FUNCS:
        try:
            f.cache_clear()
        except Exception:       # noqa
            pass


def run_once(spec, prefix, labels=None, want_fp=True, keep_trace=False, stop=None):
    """Run one execution; returns a compact, picklable dict."""
    reset_library_caches()
    h = build_harness(spec)
    ch = Chooser(prefix, labels, want_fp=want_fp, horizon=getattr(h, "horizon", 100000), stop=stop)
    armed = _arm_spin_alarm()
    spins0 = _SPINS[0]
    try:
        ex = h.run(ch)
    except SpinTimeout as e:
        return {"error": f"SpinTimeout outside a world's root: {e}", "prefix": list(prefix), "tb": traceback.format_exc()}
    except MachineryError as e:
        return {"error": f"{type(e).__name__}: {e}", "prefix": list(prefix), "tb": traceback.format_exc()}
    except BaseException as e:  # harness bug
        return {"error": f"harness crashed: {type(e).__name__}: {e}", "prefix": list(prefix), "tb": traceback.format_exc()}
    finally:
        if armed:
            _disarm_spin_alarm()
    if len(ch.points) < len(ch.prefix):
        return {"error": f"replay divergence: execution ended after {len(ch.points)} points, prefix has {len(ch.prefix)}",
                "prefix": list(prefix), "tb": ""}
    res = {
        "points": ch.points,
        "outcome": ex.outcome if isinstance(ex.outcome, str) else repr(ex.outcome),
        "violations": [v.to_json() for v in ex.violations],
        "nontrivial": bool(ex.nontrivial),
        "tdigest": _digest(ex.trace),
        "notes": ex.notes,
    }
    if _SPINS[0] != spins0:
        res["spin"] = True
    if keep_trace or ex.violations:
        res["trace"] = ex.trace
    return res


def _worker_run(args):
    return run_once(*args)


# ---------------------------------------------------------------- exploration


@dataclass
class Stats:
    states: int = 0
    transitions: int = 0
    evaluations: int = 0
    merged: int = 0
    max_depth: int = 0
    bound: Any = None
    exhaustive: bool = True
    caps: list = field(default_factory=list)
    outcomes: dict = field(default_factory=dict)        # outcome -> count
    nontrivial_outcomes: set = field(default_factory=set)
    violations: list = field(default_factory=list)      # (prefix, labels, violation json, trace)
    samples: list = field(default_factory=list)
    unmergeable: set = field(default_factory=set)
    recheck: dict = field(default_factory=lambda: {"rerun": 0, "mismatch": 0})
    wall_s: float = 0.0
    violating_executions: int = 0
    capped_depths: list = field(default_factory=list)   # per capped scenario: number of non-default choices fully covered

    def merge_from(self, o: "Stats"):
        self.states += o.states
        self.transitions += o.transitions
        self.evaluations += o.evaluations
        self.merged += o.merged
        self.max_depth = max(self.max_depth, o.max_depth)
        self.exhaustive = self.exhaustive and o.exhaustive
        self.caps += o.caps
        for k, v in o.outcomes.items():
            self.outcomes[k] = self.outcomes.get(k, 0) + v
        self.nontrivial_outcomes |= o.nontrivial_outcomes
        self.violations += o.violations
        self.violating_executions += o.violating_executions
        self.capped_depths += o.capped_depths
        self.unmergeable |= o.unmergeable
        self.recheck["rerun"] += o.recheck["rerun"]
        self.recheck["mismatch"] += o.recheck["mismatch"]


def explore(spec, *, bound=None, merge=True, max_execs=None, max_seconds=None, pool=None,
            seed=0, recheck=2, max_violations=5, sample_n=2, stop_on_violation=False) -> Stats:
    """Explore all choice sequences of one harness.

    bound: maximum total deviation cost (None = unbounded; then a drained
    frontier means every reachable state of the scenario was visited).
    """
    t0 = time.time()
    st = Stats(bound=bound)
    seen: dict = {}
    sig_counts: dict = {}
    frontier = [([], None)]
    rng = random.Random(seed)
    rerun_candidates = []
    inf = float("inf")
    # the frontier is processed in generations: generation g holds exactly the choice sequences with g non-default
    # choices (iterative deviation bounding for free), so a capped search still states what it completed
    gen = -1
    while frontier:
        gen += 1
        if max_execs is not None and st.evaluations + len(frontier) > max_execs:
            keep = max(0, max_execs - st.evaluations)
            st.caps.append(f"max_execs={max_execs} hit (generation {gen}: frontier of {len(frontier)} truncated to {keep}); "
                           f"every execution with <= {gen - 1} non-default choices was explored")
            st.capped_depths.append(gen - 1)
            st.exhaustive = False
            frontier = frontier[:keep]
            if not frontier:
                break
        tasks = [(spec, p, l, merge, False) for (p, l) in frontier]
        if pool is not None and len(tasks) > 8:
            results = pool.imap(_worker_run, tasks, chunksize=max(1, min(64, len(tasks) // 64)))
        else:
            # in-process: let the chooser consult the seen-map so that fingerprints are only computed
            # up to the point where this walk stops anyway
            def _stop(fp, used, _seen=seen, _inf=inf):
                prev = _seen.get(fp)
                return prev is not None and prev >= (_inf if bound is None else bound - used)
            results = (run_once(t[0], t[1], t[2], t[3], False, _stop if merge else None) for t in tasks)
        nxt = []
        cut_short = False
        spun = 0
        for (prefix, _), r in zip(frontier, results):
            if spun >= 3:
                # executions of this scenario burn their whole CPU allowance (library code spinning without a scheduling point):
                # each costs SPIN_LIMIT seconds, the verdict is in, exploring the rest of the scenario would take hours
                st.caps.append(f"exploration of this scenario stopped: {spun} executions exceeded the CPU limit of {SPIN_LIMIT}s per execution (livelock verdicts recorded)")
                st.exhaustive = False
                cut_short = True
                break
            if max_seconds is not None and pool is None and st.evaluations % 64 == 0 and time.time() - t0 > max_seconds and gen > 0:
                # the time cap is also honoured inside a generation (in-process exploration only: runs are produced lazily)
                cut_short = True
                break
            st.evaluations += 1
            if "error" in r:
                raise MachineryError(f"{spec[1]}{spec[2]}: {r['error']} prefix={r['prefix']}\n{r.get('tb','')}")
            if r.get("spin"):
                spun += 1
            pts = r["points"]
            st.max_depth = max(st.max_depth, len(pts))
            labels = [(p[0], p[1]) for p in pts]
            choices = [p[2] for p in pts]
            oc = r["outcome"]
            st.outcomes[oc] = st.outcomes.get(oc, 0) + 1
            if r["nontrivial"]:
                st.nontrivial_outcomes.add(oc)
            for u in r["notes"].get("unmergeable", ()):
                st.unmergeable.add(u)
            if r["violations"]:
                # keep a few executions per DISTINCT violation signature (a flood of one known finding must never
                # crowd out a different violation found later in the same scenario); max_violations caps the total
                fresh = []
                for x in r["violations"]:
                    k = x["oracle"] + "|" + json.dumps(x.get("signature", {}), sort_keys=True, default=repr)
                    n = sig_counts.get(k, 0)
                    if n < 2:
                        sig_counts[k] = n + 1
                        fresh.append(x)
                if fresh and len(st.violations) < max(max_violations, 400):
                    st.violations.append({"spec": list(spec), "choices": choices, "labels": [p[0] for p in pts],
                                          "violations": fresh, "trace": r.get("trace", [])})
                st.violating_executions += 1
            if len(st.samples) < sample_n or (r["nontrivial"] and len(st.samples) < 2 * sample_n and rng.random() < 0.05):
                st.samples.append({"choices": [f"{p[0]}={p[2]}/{p[1]}" for p in pts][:60], "outcome": oc[:300]})
            if recheck and rng.random() < 0.02:
                rerun_candidates.append((choices, labels, r["tdigest"], oc))
            used = 0
            for i, p in enumerate(pts):
                if i >= len(prefix):
                    remaining = inf if bound is None else bound - used
                    fp = p[4]
                    if fp is not None:
                        prev = seen.get(fp)
                        if prev is not None and prev >= remaining:
                            st.merged += 1
                            break
                        if prev is None:
                            st.states += 1
                        seen[fp] = remaining
                    else:
                        st.states += 1
                    st.transitions += 1  # the default edge, executed by this run
                    pc = p[3]
                    for alt in range(1, p[1]):
                        if (pc[alt] if isinstance(pc, list) else pc) <= remaining:
                            nxt.append((choices[:i] + [alt], labels[: i + 1]))
                            st.transitions += 1
                if p[2] != 0:
                    used += p[3][p[2]] if isinstance(p[3], list) else p[3]
            if stop_on_violation and st.violations:
                nxt = []
                break
        if cut_short:
            st.caps.append(f"max_seconds={max_seconds} hit inside generation {gen} ({len(frontier)} entries); "
                           f"every execution with <= {gen - 1} non-default choices was explored")
            st.capped_depths.append(gen - 1)
            st.exhaustive = False
            break
        if max_seconds is not None and time.time() - t0 > max_seconds and nxt:
            st.caps.append(f"max_seconds={max_seconds} hit with {len(nxt)} unexplored frontier entries; "
                           f"every execution with <= {gen} non-default choices was explored")
            st.capped_depths.append(gen)
            st.exhaustive = False
            break
        frontier = nxt
    if bound is not None:
        st.exhaustive = False if st.caps else st.exhaustive
    # determinism recheck: re-run a few executions in this (different) process
    rng.shuffle(rerun_candidates)
    for choices, labels, dig, oc in rerun_candidates[:recheck]:
        r2 = run_once(spec, choices, labels, want_fp=False)
        st.recheck["rerun"] += 1
        if "error" in r2 or r2["tdigest"] != dig or r2["outcome"] != oc:
            st.recheck["mismatch"] += 1
            raise MachineryError(f"non-deterministic replay for {spec}: choices={choices} first={oc} second={r2.get('outcome', r2.get('error'))}")
    st.wall_s = time.time() - t0
    return st


def _explore_job(args):
    spec, kw = args
    try:
        st = explore(spec, **kw)
        return ("ok", spec, st)
    except MachineryError as e:
        return ("err", spec, str(e))
    except BaseException as e:
        return ("err", spec, f"{type(e).__name__}: {e}\n{traceback.format_exc()}")


def explore_many(specs, *, workers=None, on_result=None, weight=None, **kw) -> Stats:
    """Explore many independent scenarios, one per worker process at a time.
    `weight(spec)`: optional size estimate; heavier scenarios are started first (results are merged, order is irrelevant)."""
    import multiprocessing as mp
    if weight is not None:
        specs = sorted(specs, key=weight, reverse=True)
    total = Stats(bound=kw.get("bound"))
    t0 = time.time()
    workers = workers or min(16, os.cpu_count() or 1)
    jobs = [(s, kw) for s in specs]
    if workers <= 1 or len(jobs) <= 1:
        it = map(_explore_job, jobs)
        pool = None
    else:
        pool = mp.get_context("fork").Pool(workers)
        it = pool.imap_unordered(_explore_job, jobs, chunksize=1) if weight is not None else pool.imap(_explore_job, jobs, chunksize=1)
    per = []
    try:
        for status, spec, st in it:
            if status == "err":
                raise MachineryError(st)
            total.merge_from(st)
            if len(total.samples) < 6:
                for s in st.samples[:1]:
                    s = dict(s)
                    s["scenario"] = f"{spec[1]} {spec[2]}"[:400]
                    total.samples.append(s)
            per.append((spec, st))
            if on_result:
                on_result(spec, st)
    finally:
        if pool is not None:
            pool.terminate()
            pool.join()
    total.wall_s = time.time() - t0
    total.per_scenario = per
    return total


def replay(spec, choices, labels=None):
    return run_once(tuple(spec), choices, None, want_fp=False, keep_trace=True)
