"""Asyncio world (W-A): real AsyncConnectionPool + real anyio primitives on the
virtual loop.  The ready queue is never reordered; the explorer chooses which
external events (I/O completions and their answers, faults, timers,
cancellations, arrivals, server-initiated events, releases) are delivered
between loop iterations."""
from __future__ import annotations

import asyncio
import gc

import anyio
from anyio._backends import _asyncio as anyio_asyncio

from . import canon
from .engine import MachineryError
from .seqworld import EXTRA_RULES as SEQ_RULES
from .simnet import core as sim
from .vloop import VLoop, is_spinner


class AEnv:
    """Environment for the asyncio world: operations pend until delivered."""

    suspending = True

    def _mc_state(self):
        return ("aenv", self.faults)

    def __init__(self, world):
        self.world = world
        self.faults = 0
        self.injected = []
        self.fault_kinds = {k: list(v) for k, v in sim.DEFAULT_FAULT_KINDS.items()}
        self.time = 0.0

    def note_extra_info(self, tr, info):
        pass

    def sync_point(self, op):
        pass

    def on_sleep(self, s):
        pass

    def immediate(self, op):
        raise MachineryError("immediate answer requested in the asyncio world")

    async def yield_once(self):
        await asyncio.sleep(0)

    async def sleep(self, seconds):
        await asyncio.sleep(seconds)

    async def pend(self, op):
        w = self.world
        fut = w.loop.create_future()
        op.fut = fut
        op.state = "pending"
        w.net.pending.append(op)
        try:
            return await fut
        except BaseException:
            if op.state == "pending":
                op.state = "cancelled"
            elif op.kind == "read" and op.state == "ok" and isinstance(op.result, (bytes, bytearray)) and op.result:
                # completed but never seen by the caller (cancelled in the same iteration): anyio and trio keep the
                # bytes in the protocol's queue / the socket buffer, so they are NOT lost: give them back
                op.tr.inbound[0:0] = op.result
                op.tr.read_total -= len(op.result)
                op.state = "ok-but-cancelled(bytes kept)"
            elif op.kind.startswith("connect") and op.tr is not None and not op.tr.closed:
                # completed but never seen by the caller (cancelled in between): real backends
                # close the half-delivered socket themselves
                op.tr.backend_cleaned = True
                w.net._close_transport(op.tr)
            raise
        finally:
            if op in w.net.pending:
                w.net.pending.remove(op)


# Count, per task, how many httpcore AsyncShieldCancellation blocks are open (root-cause predicate for
# "native task.cancel() lands inside an anyio-only shield").  Rebinding in the checker's process only.
SHIELD_DEPTH: dict = {}


def _install_shield_counter():
    from httpcore import _synchronization as sy
    if getattr(sy.AsyncShieldCancellation, "_mc_patched", False):
        return
    orig_enter, orig_exit = sy.AsyncShieldCancellation.__enter__, sy.AsyncShieldCancellation.__exit__

    def _name():
        try:
            t = asyncio.current_task()
            return t.get_name() if t is not None else None
        except RuntimeError:
            try:
                import trio
                return trio.lowlevel.current_task().name
            except Exception:
                return None

    def enter(self):
        n = _name()
        if n is not None:
            SHIELD_DEPTH[n] = SHIELD_DEPTH.get(n, 0) + 1
        return orig_enter(self)

    def exit_(self, *a):
        n = _name()
        if n is not None:
            SHIELD_DEPTH[n] = SHIELD_DEPTH.get(n, 0) - 1
        return orig_exit(self, *a)

    sy.AsyncShieldCancellation.__enter__ = enter
    sy.AsyncShieldCancellation.__exit__ = exit_
    sy.AsyncShieldCancellation._mc_patched = True


class AWorld:
    def _mc_state(self):
        return "aworld"

    def __init__(self, chooser, router, *, faults=0, cancels=0, cancel_styles=("scope",), early=True,
                 fault_kinds=None, horizon=400, extra_roots=None, timer_choice=True):
        _install_shield_counter()
        SHIELD_DEPTH.clear()
        self.chooser = chooser
        self.loop = VLoop()
        self.env = AEnv(self)
        self.env.faults = faults
        if fault_kinds is not None:
            self.env.fault_kinds = fault_kinds
        self.net = sim.Net(self.env, router, clock=self.loop.time)
        self.net.task_namer = self._task_name
        from . import vclock
        vclock.install(self.loop.time)
        self.backend = sim.AsyncSimBackend(self.net)
        self.cancels = cancels
        self.cancel_styles = tuple(cancel_styles)
        self.early = early
        self.timer_choice = timer_choice
        self.horizon = horizon
        self.callers: list[dict] = []
        self.unmergeable: set = set()
        self.roots = list(extra_roots or [])
        self.events_log: list = []
        self.steps = 0
        self.monitors = []          # callables(world) -> None, may append to self.violations
        self.violations = []
        self.deadlock = None
        self.server_events = None   # callable() -> list[(label, fn)]
        self.cancelled_log = []
        self.quiescent_hook = None
        self.timer_cooldown = False

    # ------------------------------------------------------------------ callers
    def _task_name(self):
        try:
            t = asyncio.current_task(self.loop)
        except RuntimeError:
            return None
        return t.get_name() if t is not None else None

    def add_caller(self, name, coro_fn, cancellable=False, arrive="start"):
        """arrive: 'start' = task exists from the beginning; 'event' = created by an arrive event."""
        c = {"name": name, "fn": coro_fn, "cancellable": cancellable, "task": None, "scope": None, "arrive": arrive,
             "result": None, "cancel_delivered": None}
        self.callers.append(c)
        return c

    def _start(self, c):
        async def wrapper():
            with anyio.CancelScope() as scope:
                c["scope"] = scope
                try:
                    c["result"] = ("ok", await c["fn"]())
                except Exception as e:
                    c["result"] = ("exc", e)
                return
            c["result"] = ("cancelled-scope", None)
        c["task"] = self.loop.create_task(wrapper(), name=c["name"])

    def make_release(self, name):
        """A gate the environment opens with a 'release' event (e.g. a caller holding a response open)."""
        ev = asyncio.Event()
        self.gates = getattr(self, "gates", {})
        self.gates[name] = ev
        return ev

    # ------------------------------------------------------------------ environment menu
    def _io_answers(self, op):
        """[(label, answer, kind)] for one pending op; kind in {'ok','fault'}"""
        out = []
        if op.forced is not None:
            return [("forced-" + type(op.forced).__name__, ("raise", op.forced), "ok")]
        fk = "connect" if op.kind.startswith("connect") else op.kind
        if op.kind == "read":
            tr = op.tr
            avail = min(len(tr.inbound), op.args["max_bytes"])
            if avail > 0:
                out.append((f"all{avail}", ("ok", avail), "ok"))
            elif tr.peer_eof:
                out.append(("eof", ("ok", 0), "ok"))
        else:
            out.append(("ok", ("ok", None), "ok"))
        if self.env.faults > 0:
            for name in self.env.fault_kinds.get(fk, ()):
                out.append((name, ("raise", name), "fault"))
        return out

    def menu(self):
        """-> list of (label, fn, cost).  Index 0 is the default."""
        loop = self.loop
        loop.move_due_timers()
        ready = [h for h in loop.live_ready() if not is_spinner(h)]
        m = []
        unarrived = [c for c in self.callers if c["task"] is None and c["arrive"] == "event"]
        if unarrived:
            c = unarrived[0]
            m.append((f"arrive:{c['name']}", lambda c=c: self._start(c), 0))
        if ready:
            m.append(("run", self._iterate, 0))
        deliver_ok = bool(self.early or not ready)
        if deliver_ok:
            for op in sorted(self.net.pending, key=lambda o: str(o.task)):
                for lab, ans, kind in self._io_answers(op):
                    m.append((f"io:{op.kind}@{op.task}:{lab}", lambda op=op, ans=ans: self._deliver(op, ans), 1))
            if self.server_events is not None:
                for lab, fn in self.server_events():
                    m.append((f"srv:{lab}", fn, 1))
            for name, ev in sorted(getattr(self, "gates", {}).items()):
                if not ev.is_set() and ev._waiters:
                    m.append((f"release:{name}", ev.set, 1))
        timers = loop.live_timers()
        due_pending = any(isinstance(h, asyncio.TimerHandle) for h in loop.live_ready())
        if not ready:
            self.timer_cooldown = False
        if timers and not due_pending and not self.timer_cooldown and (self.early or not ready):
            # time may pass between any two iterations (a deadline can land while other handles are ready), but virtual
            # time never jumps past a deadline whose handler has not run yet: a real loop runs it within microseconds
            m.append(("timer", self._fire_timer, 1))
        if self.cancels > 0:
            for c in self.callers:
                if c["cancellable"] and c["task"] is not None and not c["task"].done() and c["cancel_delivered"] is None:
                    for style in self.cancel_styles:
                        if style == "scope" and c["scope"] is None:
                            continue
                        m.append((f"cancel:{c['name']}:{style}", lambda c=c, style=style: self._cancel(c, style), 1))
        if m and m[0][2] != 0:
            m[0] = (m[0][0], m[0][1], 0)
        if not ready and loop.live_ready() and m and not any(x[0] == "run" for x in m):
            # only spinners are ready: they run together with whatever the delivered event makes ready
            pass
        return m

    def _iterate(self):
        self.loop.run_iteration()

    def _deliver(self, op, ans):
        if isinstance(ans[1], str) and ans[0] == "raise":
            fk = "connect" if op.kind.startswith("connect") else op.kind
            name = ans[1]
            self.env.faults -= 1
            self.env.injected.append((op.i, name, self.where(op.task)))
            if name in ("WriteError", "ReadError") and op.tr is not None:
                op.tr.peer_eof = True
            ans = ("raise", sim.FAULTS[fk][name](f"injected {name} at op {op.i}"))
        self.net.pending.remove(op)
        fut = op.fut
        try:
            val = self.net.apply(op, ans)
        except Exception as e:
            if not fut.done():
                fut.set_exception(e)
            return
        if not fut.done():
            fut.set_result(val)

    def _fire_timer(self):
        # after a deadline fired, virtual time stands still until its consequences have run to quiescence:
        # a real loop needs microseconds for them, never seconds
        self.timer_cooldown = True
        self.loop.fire_next_timer()

    @staticmethod
    def _assigned_while_queued(task):
        """True / False if the task is parked in AsyncPoolRequest.wait_for_connection and its request has / has not been handed a
        connection yet (it has not run since); None if it is not waiting in the pool queue."""
        coro = task.get_coro() if task is not None else None
        for _ in range(40):
            if coro is None:
                return None
            fr = getattr(coro, "cr_frame", None) or getattr(coro, "gi_frame", None) or getattr(coro, "ag_frame", None)
            if fr is not None and fr.f_code.co_name == "wait_for_connection" and "self" in fr.f_locals:
                return getattr(fr.f_locals["self"], "connection", None) is not None
            coro = getattr(coro, "cr_await", None) or getattr(coro, "gi_yieldfrom", None) or getattr(coro, "ag_await", None)
        return None

    def _cancel(self, c, style):
        self.cancels -= 1
        c["cancel_delivered"] = {"style": style, "where": self.where(c["name"]), "shielded": self._in_shield(c["task"]), "step": self.steps,
                                 "httpcore_shield": SHIELD_DEPTH.get(c["name"], 0) > 0, "assigned_while_queued": self._assigned_while_queued(c["task"])}
        self.cancelled_log.append((c["name"], style))
        if style == "scope":
            c["scope"].cancel()
        else:
            c["task"].cancel()

    # ------------------------------------------------------------------ introspection
    def await_chain(self, task):
        """httpcore frame qualnames on the task's await chain, outermost first."""
        out = []
        coro = task.get_coro()
        seen = 0
        while coro is not None and seen < 60:
            seen += 1
            fr = getattr(coro, "cr_frame", None) or getattr(coro, "gi_frame", None) or getattr(coro, "ag_frame", None)
            if fr is not None:
                fn = fr.f_code.co_filename
                if "/httpcore/" in fn:
                    mod = fn.rsplit("/httpcore/", 1)[1].replace(".py", "").replace("/", ".")
                    out.append(f"{mod}:{fr.f_code.co_qualname}")
            nxt = getattr(coro, "cr_await", None)
            if nxt is None:
                nxt = getattr(coro, "gi_yieldfrom", None)
            if nxt is None:
                nxt = getattr(coro, "ag_await", None)
            if nxt is not None and type(nxt).__name__ in ("async_generator_asend", "async_generator_athrow"):
                refs = [r for r in gc.get_referents(nxt) if hasattr(r, "ag_frame")]
                nxt = refs[0] if refs else None
            coro = nxt
        return out

    def where(self, name):
        for c in self.callers:
            if c["name"] == name and c["task"] is not None and not c["task"].done():
                ch = self.await_chain(c["task"])
                return " > ".join(ch[-4:]) if ch else "(outside httpcore)"
        return "(not running)"

    def _in_shield(self, task):
        ts = anyio_asyncio._task_states.get(task)
        s = ts.cancel_scope if ts is not None else None
        while s is not None:
            if s._shield:
                return True
            s = s._parent_scope
        return False

    def fp(self):
        roots = [
            [(c["name"], c["task"], c["result"], c["cancel_delivered"] is not None, anyio_asyncio._task_states.get(c["task"]) if c["task"] else None)
             for c in self.callers],
            list(self.loop._ready), self.loop.live_timers(), self.net, self.net.pending,
            self.env.faults, self.cancels, self.timer_cooldown, self.roots, sorted((k, v.is_set()) for k, v in getattr(self, "gates", {}).items()),
        ]
        d, unm = canon.fingerprint(roots, now=self.loop.time(), skip_attrs=("parent_id", "_cancel_reason", "_loop"), extra_rules=A_RULES)
        self.unmergeable |= unm
        return d

    # ------------------------------------------------------------------ main loop
    def all_done(self):
        return all(c["task"] is not None and c["task"].done() for c in self.callers)

    def run(self):
        """Drive the world until every caller finished or nothing can happen."""
        loop = self.loop
        gc_was = gc.isenabled()
        gc.disable()
        loop.install()
        try:
            for c in self.callers:
                if c["arrive"] == "start":
                    self._start(c)
            while True:
                self.steps += 1
                for mon in self.monitors:
                    mon(self)
                if self.all_done():
                    break
                if self.steps > self.horizon:
                    self.deadlock = ("livelock", f"horizon of {self.horizon} steps exceeded")
                    break
                m = self.menu()
                if not m:
                    blocked = [(c["name"], self.where(c["name"])) for c in self.callers if c["task"] is None or not c["task"].done()]
                    self.deadlock = ("deadlock", blocked)
                    break
                if len(m) == 1:
                    k = 0
                else:
                    lab = m[0][0] + "|" + str(len(m))
                    k = self.chooser.choose(len(m), lab, cost=[x[2] for x in m], fp=self.fp)
                self.events_log.append(m[k][0])
                m[k][1]()
            return self
        finally:
            pass

    def drain(self, coro_fn, max_steps=2000):
        """Run a follow-up coroutine with default environment answers only (no choices)."""
        t = self.loop.create_task(coro_fn(), name="post")
        n = 0
        while not t.done():
            n += 1
            if n > max_steps:
                return ("livelock", None)
            self.loop.move_due_timers()
            if self.loop.live_ready() and any(not is_spinner(h) for h in self.loop.live_ready()):
                self.loop.run_iteration()
                continue
            progressed = False
            for op in sorted(self.net.pending, key=lambda o: str(o.task)):
                answers = [a for a in self._io_answers(op) if a[2] == "ok"]
                if answers:
                    self._deliver(op, answers[0][1])
                    progressed = True
                    break
            if progressed:
                continue
            if self.loop.live_ready():
                self.loop.run_iteration()
                if self.loop.live_ready() and all(is_spinner(h) for h in self.loop.live_ready()) and not self.net.pending:
                    # spinners only, nothing else can happen
                    if not self.loop.fire_next_timer():
                        return ("deadlock", self.where("post"))
                continue
            if not self.loop.fire_next_timer():
                return ("deadlock", None)
        if t.cancelled():
            return ("cancelled", None)
        if t.exception() is not None:
            return ("exc", t.exception())
        return ("ok", t.result())

    def close(self):
        """Tear the world down.  Callers that are still blocked (deadlock verdicts) are cancelled and given a few
        iterations to unwind inside the loop; what is left is dropped with unraisable-exception reports silenced
        (they would come from coroutines finalised outside any async context, after the verdict was recorded)."""
        import sys
        old_hook = sys.unraisablehook
        sys.unraisablehook = lambda *a: None
        try:
            pending = [c["task"] for c in self.callers if c["task"] is not None and not c["task"].done()]
            for t in pending:
                t.cancel()
            for _ in range(60):
                if not self.loop.live_ready():
                    break
                try:
                    self.loop.run_iteration()
                except BaseException:
                    break
            self.loop.uninstall()
            # drop every reference to unfinished coroutines now, while reports are silenced
            for c in self.callers:
                c["task"] = None
                c["fn"] = None
            self.monitors.clear()
            self.roots.clear()
        finally:
            gc.enable()
            gc.collect()
            sys.unraisablehook = old_hook


A_RULES = dict(SEQ_RULES)
A_RULES[VLoop] = lambda l: "loop"
