"""Evidence writer + minimal built-in schema check (jsonschema lives only in python3-vt)."""
from __future__ import annotations

import json
import os
import time

EVID_DIR = os.path.join(os.path.dirname(os.path.dirname(os.path.abspath(__file__))), "evidence")
LEVELS = {"exploration", "fault_enumeration", "model_checking", "proof", "translation_validation", "other"}


def builtin_validate(ev: dict):
    for k in ("property_id", "tier", "seed", "level", "coverage", "wall_s"):
        if k not in ev:
            raise ValueError(f"evidence lacks {k}")
    if ev["tier"] not in ("quick", "thorough"):
        raise ValueError("tier")
    if ev["level"] not in LEVELS:
        raise ValueError("level")
    if not isinstance(ev["seed"], int):
        raise ValueError("seed")
    cov = ev["coverage"]
    lvl = ev["level"]
    if lvl in ("exploration", "fault_enumeration"):
        if not (cov.get("evaluations", 0) >= 1 and cov.get("distinct_nontrivial", 0) >= 2 and isinstance(cov.get("rule"), str) and cov.get("samples")):
            raise ValueError("generic coverage keys missing/too small")
    elif lvl == "model_checking":
        if not (cov.get("states", 0) >= 1 and cov.get("transitions", 0) >= 1 and "traces_validated_against_impl" in cov and cov.get("samples")):
            raise ValueError("model_checking coverage keys")
    elif lvl == "translation_validation":
        if not (cov.get("programs", 0) >= 1 and "disagreements_checked" in cov and cov.get("samples")):
            raise ValueError("translation_validation coverage keys")
    json.dumps(ev)


def stats_coverage(st, rule: str, extra: dict | None = None) -> dict:
    cov = {
        "states": st.states,
        "transitions": st.transitions,
        "evaluations": st.evaluations,
        "traces_validated_against_impl": st.evaluations,
        "distinct_nontrivial": len(st.nontrivial_outcomes),
        "distinct_outcomes": len(st.outcomes),
        "rule": rule,
        "samples": st.samples[:8],
        "exhaustive": bool(st.exhaustive),
        "deviation_bound_completed": st.bound,
        "merged_revisits": st.merged,
        "max_choice_depth": st.max_depth,
        "caps_hit": st.caps[:40],
        "capped_scenarios_cover_all_executions_with_non_default_choices_up_to": (min(st.capped_depths) if getattr(st, "capped_depths", None) else None),
        "unmergeable_types": sorted(st.unmergeable),
        "determinism_recheck": st.recheck,
        "violating_executions": getattr(st, "violating_executions", 0),
        "states_are": "distinct canonical fingerprints of the visited choice points; choice points of stateless searches (no fingerprint: thread and trio worlds, C20) count individually",
    }
    if extra:
        cov.update(extra)
    return cov


def write(pid: str, tier: str, seed: int, level: str, coverage: dict, wall_s: float, violations: int,
          assumptions=(), known_findings=()):
    ev = {
        "property_id": pid,
        "tier": tier,
        "seed": int(seed),
        "level": level,
        "coverage": coverage,
        "assumptions": list(assumptions),
        "wall_s": round(wall_s, 3),
        "violations": int(violations),
        "known_findings_seen": list(known_findings),
        "written_at": time.strftime("%Y-%m-%dT%H:%M:%SZ", time.gmtime()),
    }
    builtin_validate(ev)
    os.makedirs(EVID_DIR, exist_ok=True)
    path = os.path.join(EVID_DIR, f"{pid}.json")
    tmp = path + ".tmp"
    with open(tmp, "w") as f:
        json.dump(ev, f, indent=1, default=repr)
    os.replace(tmp, path)
    return path
