"""Trio world (W-R): real trio.run with a MockClock that never jumps by itself, trio's batch
shuffling pinned, a controller task that delivers simulated I/O completions whenever every
other task is blocked, and an Instrument that cancels the victim's CancelScope after its k-th
task step (so cancellation lands after *every* step, not only at blocking points).

Stateless (no fingerprints): deviation-bounded search.  Smaller menu than the asyncio world:
completion order at quiescence, one fault, the cancel step.  Exercises the trio branches of
httpcore/_synchronization.py (Lock, Event, Semaphore, shield) that no other world reaches."""
from __future__ import annotations

import gc

import trio
import trio.testing
from trio._core import _run as trio_run_mod

from .aworld import SHIELD_DEPTH, _install_shield_counter
from .simnet import core as sim


class _Fixed:
    """Replaces trio's private RNG: no shuffling, no reversing."""

    def shuffle(self, x):
        return None

    def random(self):
        return 1.0

    def uniform(self, a, b):
        return a


class REnv:
    suspending = True

    def __init__(self, world):
        self.world = world
        self.faults = 0
        self.injected = []
        self.fault_kinds = {k: list(v) for k, v in sim.DEFAULT_FAULT_KINDS.items()}
        self.time = 0.0

    def _mc_state(self):
        return "renv"

    def note_extra_info(self, tr, info):
        pass

    def sync_point(self, op):
        pass

    def on_sleep(self, s):
        pass

    async def yield_once(self):
        await trio.lowlevel.checkpoint()

    async def sleep(self, seconds):
        await trio.sleep(seconds)

    async def pend(self, op):
        w = self.world
        ev = trio.Event()
        op.fut = ev
        op.state = "pending"
        op.result = None
        w.net.pending.append(op)
        box = w.boxes[id(op)] = {}
        try:
            await ev.wait()
        except BaseException:
            if op.state == "pending":
                op.state = "cancelled"
            elif op.kind == "read" and op.state == "ok" and isinstance(op.result, (bytes, bytearray)) and op.result:
                op.tr.inbound[0:0] = op.result
                op.tr.read_total -= len(op.result)
                op.state = "ok-but-cancelled(bytes kept)"
            elif op.kind.startswith("connect") and op.tr is not None and not op.tr.closed:
                op.tr.backend_cleaned = True
                w.net._close_transport(op.tr)
            raise
        finally:
            if op in w.net.pending:
                w.net.pending.remove(op)
            w.boxes.pop(id(op), None)
        if "exc" in box:
            raise box["exc"]
        return box["val"]


class _Instr(trio.abc.Instrument):
    def __init__(self, world):
        self.world = world

    def after_task_step(self, task):
        w = self.world
        v = w.victim
        if v is not None and task.name == v["name"] and v["scope"] is not None and not v["cancelled"]:
            w.vsteps += 1
            if w.vsteps == w.cancel_at:
                v["cancelled"] = True
                v["cancel_info"] = {"where": w.where(task), "httpcore_shield": SHIELD_DEPTH.get(v["name"], 0) > 0, "step": w.vsteps}
                v["scope"].cancel()


class RWorld:
    def __init__(self, chooser, router, *, faults=0, cancel_steps=0, fault_kinds=None, horizon=3000, timers=False):
        self.timers = timers        # the clock may be advanced to the next trio deadline whenever everybody is blocked
        self.gates = {}             # name -> [trio.Event, armed?]: external "release" events (held responses)
        _install_shield_counter()
        SHIELD_DEPTH.clear()
        self.chooser = chooser
        self.env = REnv(self)
        self.env.faults = faults
        if fault_kinds is not None:
            self.env.fault_kinds = fault_kinds
        self.clock = trio.testing.MockClock()
        self.net = sim.Net(self.env, router, clock=lambda: 0.0)
        self.net.task_namer = self._tname
        self.backend = sim.AsyncSimBackend(self.net)
        from . import vclock, tshim
        vclock.install(lambda: 0.0)
        self.cancel_steps = cancel_steps
        self.cancel_at = 0
        self.vsteps = 0
        self.victim = None
        self.callers = []
        self.boxes = {}
        self.events_log = []
        self.deadlock = None
        self.horizon = horizon
        self.steps = 0
        self.post = None
        self.post_result = None
        self.auto = False

    def _tname(self):
        try:
            return trio.lowlevel.current_task().name
        except RuntimeError:
            return None

    def add_caller(self, name, fn, victim=False):
        c = {"name": name, "fn": fn, "result": None, "scope": None, "cancelled": False, "cancel_info": None, "done": False}
        self.callers.append(c)
        if victim:
            self.victim = c
        return c

    def make_release(self, name):
        """An external event the controller may deliver once `arm(name)` was called (a held response being let go)."""
        ev = trio.Event()
        self.gates[name] = [ev, False]
        return ev

    def arm(self, name):
        self.gates[name][1] = True

    def where(self, task):
        out = []
        coro = task.coro
        n = 0
        while coro is not None and n < 60:
            n += 1
            fr = getattr(coro, "cr_frame", None) or getattr(coro, "gi_frame", None) or getattr(coro, "ag_frame", None)
            if fr is not None and "/httpcore/" in fr.f_code.co_filename:
                mod = fr.f_code.co_filename.rsplit("/httpcore/", 1)[1].replace(".py", "").replace("/", ".")
                out.append(f"{mod}:{fr.f_code.co_qualname}")
            nxt = getattr(coro, "cr_await", None) or getattr(coro, "gi_yieldfrom", None) or getattr(coro, "ag_await", None)
            if nxt is not None and type(nxt).__name__ in ("async_generator_asend", "async_generator_athrow"):
                refs = [r for r in gc.get_referents(nxt) if hasattr(r, "ag_frame")]
                nxt = refs[0] if refs else None
            coro = nxt
        return " > ".join(out[-4:]) if out else "(outside httpcore)"

    def _answers(self, op):
        out = []
        if op.forced is not None:
            return [("forced", ("raise", op.forced), "ok")]
        fk = "connect" if op.kind.startswith("connect") else op.kind
        if op.kind == "read":
            tr = op.tr
            avail = min(len(tr.inbound), op.args["max_bytes"])
            if avail > 0:
                out.append((f"all{avail}", ("ok", avail), "ok"))
            elif tr.peer_eof:
                out.append(("eof", ("ok", 0), "ok"))
        else:
            out.append(("ok", ("ok", None), "ok"))
        if self.env.faults > 0 and not self.auto:
            for name in self.env.fault_kinds.get(fk, ()):
                out.append((name, ("raise", name), "fault"))
        return out

    def _deliver(self, op, ans):
        if ans[0] == "raise" and isinstance(ans[1], str):
            fk = "connect" if op.kind.startswith("connect") else op.kind
            name = ans[1]
            self.env.faults -= 1
            self.env.injected.append((op.i, name, op.task))
            if name in ("WriteError", "ReadError") and op.tr is not None:
                op.tr.peer_eof = True
            ans = ("raise", sim.FAULTS[fk][name](f"injected {name} at op {op.i}"))
        box = self.boxes[id(op)]
        self.net.pending.remove(op)
        try:
            box["val"] = self.net.apply(op, ans)
        except Exception as e:
            box["exc"] = e
        op.fut.set()

    def _tasks(self):
        try:
            root = trio.lowlevel.current_root_task()
        except RuntimeError:
            return []
        out, todo = [], [root]
        while todo:
            t = todo.pop()
            out.append(t)
            for n in t.child_nurseries:
                todo.extend(n.child_tasks)
        return out

    async def _wrap(self, c):
        with trio.CancelScope() as scope:
            c["scope"] = scope
            try:
                c["result"] = ("ok", await c["fn"]())
            except Exception as e:
                c["result"] = ("exc", e)
        if scope.cancelled_caught:
            c["result"] = ("cancelled-scope", None)
        c["done"] = True

    async def _controller(self, until):
        while True:
            await trio.testing.wait_all_tasks_blocked()
            if until():
                return
            self.steps += 1
            if self.steps > self.horizon:
                self.deadlock = ("livelock", "horizon exceeded")
                return
            menu = []
            for op in sorted(self.net.pending, key=lambda o: str(o.task)):
                for lab, ans, kind in self._answers(op):
                    menu.append((f"io:{op.kind}@{op.task}:{lab}", op, ans))
            for name in sorted(self.gates):
                ev, armed = self.gates[name]
                if armed and not ev.is_set():
                    menu.append((f"release:{name}", "release", name))
            if self.timers:
                secs = trio.lowlevel.current_statistics().seconds_to_next_deadline
                if secs != float("inf") and secs >= 0:
                    menu.append((f"timer:+{round(secs, 6)}", "timer", secs))
            v = self.victim
            if v is not None and self.cancel_steps and self.cancel_at == 0 and not v["cancelled"] and not v["done"] and v["scope"] is not None and not self.auto and menu:
                # cancellation arriving from outside while everybody is blocked; together with the completion delivered
                # next it also covers "completed but not yet resumed when the cancellation lands"
                menu.append(("cancel:victim", None, None))
            if not menu:
                self.deadlock = ("deadlock", [(c["name"], "?") for c in self.callers if not c["done"]])
                return
            if len(menu) == 1 or self.auto:
                k = 0
            else:
                k = self.chooser.choose(len(menu), menu[0][0] + "|" + str(len(menu)), cost=1)
            self.events_log.append(menu[k][0])
            if menu[k][1] is None:
                v["cancelled"] = True
                task = next((t for t in self._tasks() if t.name == v["name"]), None)
                v["cancel_info"] = {"where": self.where(task) if task is not None else "(unknown)", "httpcore_shield": SHIELD_DEPTH.get(v["name"], 0) > 0, "step": -1}
                self.late_cancel = True
                continue
            if menu[k][1] == "release":
                self.gates[menu[k][2]][0].set()
                continue
            if menu[k][1] == "timer":
                self.clock.jump(menu[k][2])
                continue
            self._deliver(menu[k][1], menu[k][2])
            if getattr(self, "late_cancel", False):
                # the scope is cancelled right after the next completion was delivered, before the victim runs again
                self.late_cancel = False
                v["scope"].cancel()

    async def _main(self):
        async with trio.open_nursery() as nursery:
            for c in self.callers:
                nursery.start_soon(self._wrap, c, name=c["name"])
            await self._controller(lambda: all(c["done"] for c in self.callers))
            if self.deadlock is None and self.post is not None:
                self.auto = True
                done = {}

                async def runpost():
                    try:
                        done["r"] = ("ok", await self.post())
                    except Exception as e:
                        done["r"] = ("exc", e)
                nursery.start_soon(runpost, name="post")
                await self._controller(lambda: "r" in done)
                self.post_result = done.get("r", ("deadlock", None))
            nursery.cancel_scope.cancel()

    def run(self):
        if self.victim is not None and self.cancel_steps:
            self.cancel_at = self.chooser.choose(self.cancel_steps + 1, "cancel-after-step", cost=[0] + [1] * self.cancel_steps)
        trio_run_mod._ALLOW_DETERMINISTIC_SCHEDULING = True
        trio_run_mod._r = _Fixed()
        gc_was = gc.isenabled()
        gc.disable()
        try:
            trio.run(self._main, clock=self.clock, instruments=[_Instr(self)])
        finally:
            if gc_was:
                gc.enable()
        return self
