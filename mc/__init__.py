"""Model-checking machinery for encode/httpcore (see /verif/DESIGN.md)."""
