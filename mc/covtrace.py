"""Which lines of httpcore do the explorations execute at all?  (diagnostic, not part of any check)

VERIF_COV=<dir> ./check Cxx  — every process (master and forked workers) appends "file:line" once per line of /repo/httpcore
it executes to <dir>/<pid>.txt, through sys.monitoring LINE events that disable themselves after the first hit (no overhead
afterwards, independent of the sys.settrace scheduler of the thread world).  tools/cov_report.py turns the directory into a
list of never-executed lines per file.
"""
from __future__ import annotations

import os
import sys

_state = {"pid": None, "fh": None, "dir": None, "prefix": None}


def _fh():
    pid = os.getpid()
    if _state["pid"] != pid:
        _state["pid"] = pid
        _state["fh"] = open(os.path.join(_state["dir"], f"{pid}.txt"), "a", buffering=1)
    return _state["fh"]


def _on_line(code, line):
    fn = code.co_filename
    if fn.startswith(_state["prefix"]):
        _fh().write(f"{fn[len(_state['prefix']):]}:{line}\n")
    return sys.monitoring.DISABLE


def install(repo):
    d = os.environ.get("VERIF_COV")
    if not d:
        return
    os.makedirs(d, exist_ok=True)
    _state["dir"] = d
    _state["prefix"] = os.path.realpath(repo) + os.sep
    mon = sys.monitoring
    tool = mon.COVERAGE_ID
    mon.use_tool_id(tool, "verif-cov")
    mon.register_callback(tool, mon.events.LINE, _on_line)
    mon.set_events(tool, mon.events.LINE)
