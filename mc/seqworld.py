"""Sequential world (W-S): one caller, sync or async variant, every simulated
network operation answered at once by the chooser."""
from __future__ import annotations

import asyncio
import gc
import sys

import httpcore

from . import canon
from .simnet import core as sim
from .vloop import run_single

REPO_PREFIX = None


def _repo_prefix():
    global REPO_PREFIX
    if REPO_PREFIX is None:
        import os
        REPO_PREFIX = os.path.dirname(os.path.realpath(httpcore.__file__))
    return REPO_PREFIX


def httpcore_stack(stop_name="__mc_root__"):
    """Frames of httpcore code currently on the Python stack (innermost first)."""
    out = []
    f = sys._getframe(1)
    pref = _repo_prefix()
    while f is not None:
        if f.f_code.co_name == stop_name:
            break
        if f.f_code.co_filename.startswith(pref):
            out.append(f)
        f = f.f_back
    return out


def _tr_key(t):
    return (str(t.host), str(t.port), t.closed, len(t.written), len(t.inbound), t.peer_eof, len(t.layers))


def _net_rule(net):
    # what can still influence the future, not the history (ledger); open transports in a canonical order,
    # closed ones only as a count
    opn = sorted((t for t in net.transports if not t.closed), key=_tr_key)
    return ("net", opn, len(net.transports) - len(opn), net.connects_in_flight, sorted(net.pending, key=lambda o: str(o.task)))


def _op_rule(op):
    return ("op", op.kind, op.tr, op.layer, op.task, op.state,
            {k: v for k, v in op.args.items() if k != "ssl_context"}, type(op.forced).__name__)


def _tr_rule(t):
    return ("tr", str(t.host), str(t.port), t.closed, bytes(t.inbound), t.peer_eof, len(t.written), t.read_total,
            [(l["sni"], l["alpn"]) for l in t.layers], t.peer)


EXTRA_RULES = {sim.Net: _net_rule, sim.Transport: _tr_rule, sim.Op: _op_rule,
               sim.RecordingSSLContext: lambda c: ("ctx", c.name, c.alpn)}


class SeqWorld:
    """Builds net + env for one execution; fingerprints = httpcore stack + given roots."""

    def __init__(self, chooser, router, *, variant="sync", merge_roots=None, skip_attrs=(), **envkw):
        self.chooser = chooser
        self.variant = variant
        self.unmergeable = set()
        self.roots = merge_roots if merge_roots is not None else []
        self.skip_attrs = set(skip_attrs)
        self.env = sim.SeqEnv(chooser, fp=self._fp, **envkw)
        self.net = sim.Net(self.env, router, clock=lambda: self.env.time)
        self.env.net = self.net
        from . import vclock, tshim
        vclock.install(lambda: self.env.time)
        tshim.install()
        tshim.SCHED[0] = None
        self.backend = sim.SimBackend(self.net) if variant == "sync" else sim.AsyncSimBackend(self.net)
        self.result = None

    def _fp(self):
        frames = []
        f = sys._getframe(1)
        pref = _repo_prefix()
        while f is not None and f.f_code.co_name != "__mc_root__":
            if f.f_code.co_filename.startswith(pref):
                frames.append(f)
            f = f.f_back
        d, unm = canon.fingerprint([frames, self.roots, self.net, self.env.faults, self.env.time],
                                   now=self.env.time, skip_attrs=self.skip_attrs, extra_rules=EXTRA_RULES)
        self.unmergeable |= unm
        return d

    def run(self, sync_fn=None, async_fn=None):
        """Run the caller program; returns ("ok", value) | ("exc", exc) | ("hang", Hang)."""
        gc_was = gc.isenabled()
        gc.disable()
        try:
            if self.variant == "sync":
                return self.__mc_root_sync(sync_fn)
            return self.__mc_root_async(async_fn)
        finally:
            if gc_was:
                gc.enable()

    def __mc_root_sync(self, fn):
        return _mc_root_sync(fn)

    def __mc_root_async(self, fn):
        return _mc_root_async(fn)


def _spin():
    from .engine import SpinTimeout
    return SpinTimeout


def _mc_root_sync(fn):
    def __mc_root__():
        from .tshim import SeqDeadlock
        try:
            return ("ok", fn())
        except sim.Hang as e:
            return ("hang", e)
        except SeqDeadlock as e:
            return ("deadlock", e)
        except Exception as e:
            return ("exc", e)
        except _spin() as e:
            return ("livelock", e)
    return __mc_root__()


def _mc_root_async(fn):
    async def __mc_root__():
        return await fn()
    st, val, loop = run_single(__mc_root__)
    if st == "exc" and isinstance(val, sim.Hang):
        return ("hang", val)
    if st == "exc" and isinstance(val, _spin()):
        return ("livelock", val)
    if st in ("deadlock", "livelock"):
        return (st, None)
    return (st, val)


def exc_class(e) -> str:
    t = type(e)
    return f"{t.__module__}.{t.__qualname__}"


def documented_exception(e) -> bool:
    return isinstance(e, (httpcore.TimeoutException, httpcore.NetworkError, httpcore.ProtocolError,
                          httpcore.ProxyError, httpcore.UnsupportedProtocol))
