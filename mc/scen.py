"""Scenario building blocks shared by the property checks: connection types,
topologies of simulated peers, pool construction for both variants."""
from __future__ import annotations

import httpcore

from .simnet import core as sim
from .simnet.http1 import H1Server, HTTPProxy, Socks5Proxy, make_echo_responder, Peer
from .simnet.h2peer import H2Server

PROXY_HOST, PROXY_PORT = "proxy.example", 3128
SOCKS_HOST, SOCKS_PORT = "socks.example", 1080

# name -> dict(scheme, proxy, http1, http2, server protocol)
CONN_TYPES = {
    "h11":        dict(scheme="http", proxy=None, http1=True, http2=False, proto="h1"),
    "h11tls":     dict(scheme="https", proxy=None, http1=True, http2=False, proto="h1"),
    "h2pk":       dict(scheme="http", proxy=None, http1=False, http2=True, proto="h2"),
    "h2alpn":     dict(scheme="https", proxy=None, http1=True, http2=True, proto="h2"),
    "h2exp11":    dict(scheme="https", proxy=None, http1=True, http2=True, proto="h1"),   # h2 offered, http/1.1 negotiated
    "fwd":        dict(scheme="http", proxy="http", http1=True, http2=False, proto="h1"),
    "tunnel":     dict(scheme="https", proxy="http", http1=True, http2=False, proto="h1"),
    "tunnel-h2":  dict(scheme="https", proxy="http", http1=True, http2=True, proto="h2"),
    "tunnel-s":   dict(scheme="https", proxy="https", http1=True, http2=False, proto="h1"),
    "socks":      dict(scheme="http", proxy="socks5", http1=True, http2=False, proto="h1"),
    "socks-auth-tls": dict(scheme="https", proxy="socks5-auth", http1=True, http2=False, proto="h1"),
    "socks-h2":   dict(scheme="https", proxy="socks5", http1=True, http2=True, proto="h2"),
}

# The same proxied topologies with the pool built as an httpcore.HTTPProxy / SOCKSProxy object (their own __init__ and
# create_connection) instead of ConnectionPool(proxy=Proxy(...)).  Looked up by name like the others, but not part of an
# iteration over CONN_TYPES: the checks that want them name them (LEGACY_TYPES).
LEGACY_TYPES = {
    "fwd-L":      dict(scheme="http", proxy="http", http1=True, http2=False, proto="h1", legacy=True),
    "tunnel-L":   dict(scheme="https", proxy="http", http1=True, http2=False, proto="h1", legacy=True),
    "socks-L":    dict(scheme="http", proxy="socks5", http1=True, http2=False, proto="h1", legacy=True),
}


class _ConnTypes(dict):
    def __iter__(self):
        return iter([k for k in dict.keys(self) if k not in LEGACY_TYPES])

    def keys(self):
        return list(iter(self))

    def __len__(self):
        return len(list(iter(self)))


CONN_TYPES = _ConnTypes({**CONN_TYPES, **LEGACY_TYPES})


class Topology:
    """Origins are created on demand, one server object per (host, port)."""

    def __init__(self, ct: dict, framing="cl", h2cfg=None, h1_alpn=None, connect_status=200, tls_ok=True,
                 socks_kwargs=None, respond_at="complete", origin_tls_ok=True, responder=None):
        self.ct = ct
        self.framing = framing
        self.h2cfg = dict(h2cfg or {})
        self.h2cfg.setdefault("max_streams", 100)
        self.origins: dict = {}
        self.respond_at = respond_at
        self.origin_tls_ok = origin_tls_ok
        self.responder = responder
        self.proxy = None
        self.socks = None
        if ct["proxy"] in ("http", "https"):
            self.proxy = HTTPProxy(self._tunnel_router, forward_server=H1Server(self._responder(), respond_at, name="via-proxy"),
                                   connect_status=connect_status, tls_ok=tls_ok)
        elif ct["proxy"] in ("socks5", "socks5-auth"):
            kw = dict(socks_kwargs or {})
            if ct["proxy"] == "socks5-auth":
                kw.setdefault("method_reply", b"\x05\x02")
            self.socks = Socks5Proxy(self._tunnel_router, **kw)

    def _responder(self):
        return self.responder or make_echo_responder(self.framing)

    def origin(self, host, port):
        key = (host, port)
        o = self.origins.get(key)
        if o is None:
            if self.ct["proto"] == "h2":
                o = H2Server(**self.h2cfg)
            else:
                o = H1Server(self._responder(), self.respond_at, alpn="http/1.1", tls_ok=self.origin_tls_ok, name=f"{host}:{port}")
            self.origins[key] = o
        return o

    def _tunnel_router(self, kind, host, port):
        return self.origin(host, port).new_conn()

    def router(self, kind, host, port):
        if self.proxy is not None and (host, port) == (PROXY_HOST, PROXY_PORT):
            return self.proxy.new_conn()
        if self.socks is not None and (host, port) == (SOCKS_HOST, SOCKS_PORT):
            return self.socks.new_conn()
        return self.origin(host, port).new_conn()

    def all_h1_conns(self):
        out = []
        for o in self.origins.values():
            if isinstance(o, H1Server):
                out += o.conns
        if self.proxy is not None and self.proxy.forward_server is not None:
            out += self.proxy.forward_server.conns
        return out

    def all_h2_conns(self):
        out = []
        for o in self.origins.values():
            if isinstance(o, H2Server):
                out += o.conns
        return out

    def seen_tokens(self):
        """token -> list of (where, transport/conn) sightings of a request head."""
        out: dict = {}
        from .simnet.http1 import token_of
        servers = list(self.origins.items())
        if self.proxy is not None and self.proxy.forward_server is not None:
            servers.append((("via-proxy", 0), self.proxy.forward_server))
        for key, o in servers:
            if isinstance(o, H1Server):
                for c in o.conns:
                    for r in c.parser.requests:
                        if r.head_complete:
                            out.setdefault(token_of(r), []).append((key, c.tr.id if c.tr else None))
            else:
                for ci, sid, tok in o.seen:
                    out.setdefault(tok, []).append((key, o.conns[ci].tr.id, sid))
        return out


def make_pool(ct_name, backend, variant, ssl_ctx=None, proxy_ssl_ctx=None, proxy_auth=None, proxy_headers=None, **kw):
    ct = CONN_TYPES[ct_name]
    if ct.get("legacy"):
        common = dict(ssl_context=ssl_ctx or sim.RecordingSSLContext("origin"), http1=ct["http1"], http2=ct["http2"], network_backend=backend, **kw)
        if ct["proxy"] in ("http", "https"):
            lcls = httpcore.HTTPProxy if variant == "sync" else httpcore.AsyncHTTPProxy
            return lcls(proxy_url=f"{ct['proxy']}://{PROXY_HOST}:{PROXY_PORT}", proxy_auth=proxy_auth, proxy_headers=proxy_headers,
                        proxy_ssl_context=(proxy_ssl_ctx or sim.RecordingSSLContext("proxy")) if ct["proxy"] == "https" else None, **common)
        lcls = httpcore.SOCKSProxy if variant == "sync" else httpcore.AsyncSOCKSProxy
        return lcls(proxy_url=f"socks5://{SOCKS_HOST}:{SOCKS_PORT}", proxy_auth=proxy_auth, **common)
    cls = httpcore.ConnectionPool if variant == "sync" else httpcore.AsyncConnectionPool
    proxy = None
    if ct["proxy"] == "http":
        proxy = httpcore.Proxy(f"http://{PROXY_HOST}:{PROXY_PORT}", auth=proxy_auth, headers=proxy_headers)
    elif ct["proxy"] == "https":
        proxy = httpcore.Proxy(f"https://{PROXY_HOST}:{PROXY_PORT}", auth=proxy_auth, headers=proxy_headers,
                               ssl_context=proxy_ssl_ctx or sim.RecordingSSLContext("proxy"))
    elif ct["proxy"] == "socks5":
        proxy = httpcore.Proxy(f"socks5://{SOCKS_HOST}:{SOCKS_PORT}", auth=proxy_auth)
    elif ct["proxy"] == "socks5-auth":
        proxy = httpcore.Proxy(f"socks5://{SOCKS_HOST}:{SOCKS_PORT}", auth=proxy_auth or (b"user", b"pass"))
    return cls(ssl_context=ssl_ctx or sim.RecordingSSLContext("origin"), proxy=proxy, http1=ct["http1"], http2=ct["http2"],
               network_backend=backend, **kw)


def url_for(ct_name, host="a.example", token="t0", port=None):
    ct = CONN_TYPES[ct_name]
    hp = host if port is None else f"{host}:{port}"
    return f"{ct['scheme']}://{hp}/t/{token}"


def pool_summary(pool):
    return {"repr": repr(pool), "conns": [repr(c) for c in pool.connections],
            "requests": len(pool._requests)}
