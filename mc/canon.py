"""Canonical fingerprint of a live Python object graph.

Object identity is replaced by first-visit index, unordered containers are
sorted by a shallow key of their members, absolute times are made relative to
the virtual clock.  There is NO silent repr() fallback: a type without a rule
makes the state unmergeable (unique nonce) and is reported.
"""
from __future__ import annotations

import asyncio
import collections
import enum
import hashlib
import inspect
import itertools
import types
import weakref

_NONCE = itertools.count()

import dis

_LIVE_CACHE: dict = {}
_UNCOND = {"JUMP_FORWARD", "JUMP_BACKWARD", "JUMP_BACKWARD_NO_INTERRUPT", "JUMP_ABSOLUTE"}
_TERMINAL = {"RETURN_VALUE", "RETURN_CONST", "RAISE_VARARGS", "RERAISE"}
_USES = {"LOAD_FAST", "LOAD_FAST_CHECK", "LOAD_FAST_AND_CLEAR", "DELETE_FAST"}


def live_locals(code, lasti):
    """Names of fast locals that may still be read after the instruction at `lasti`
    (classic backward-reachability liveness over the bytecode CFG, exception-table
    edges included; cell/free variables are always live).  A stale local that is
    certain to be overwritten before any read cannot influence the future, so it is
    left out of fingerprints."""
    key = (code, lasti)
    r = _LIVE_CACHE.get(key)
    if r is not None:
        return r
    info = _LIVE_CACHE.get(code)
    if info is None:
        ins = list(dis.get_instructions(code))
        idx = {i.offset: n for n, i in enumerate(ins)}
        handlers = []
        try:
            for e in dis._parse_exception_table(code):
                handlers.append((e.start, e.end, e.target))
        except Exception:
            handlers = None
        succ = []
        for n, i in enumerate(ins):
            out = []
            if i.opname not in _UNCOND and i.opname not in _TERMINAL and n + 1 < len(ins):
                out.append(n + 1)
            if i.opcode in dis.hasjrel or i.opcode in dis.hasjabs:
                t = idx.get(i.argval)
                if t is not None:
                    out.append(t)
            if handlers is not None:
                for (a, b, t) in handlers:
                    if a <= i.offset < b and t in idx:
                        out.append(idx[t])
            succ.append(out)
        info = (ins, idx, succ, handlers is None)
        _LIVE_CACHE[code] = info
    ins, idx, succ, unknown = info
    always = set(code.co_cellvars) | set(code.co_freevars)
    if unknown or lasti < 0:
        _LIVE_CACHE[key] = frozenset(code.co_varnames) | always
        return _LIVE_CACHE[key]
    # f_lasti may point into the inline cache entries of an instruction
    start = 0
    for n, i in enumerate(ins):
        if i.offset <= lasti:
            start = n
        else:
            break
    live = set(always)
    for v in code.co_varnames:
        if v in live:
            continue
        seen = set()
        stack = list(succ[start])
        found = False
        while stack and not found:
            n = stack.pop()
            if n in seen:
                continue
            seen.add(n)
            i = ins[n]
            if i.argval == v and i.opname in _USES:
                found = True
                break
            if i.argval == v and i.opname == "STORE_FAST":
                continue
            stack.extend(succ[n])
        if found:
            live.add(v)
    r = frozenset(live)
    _LIVE_CACHE[key] = r
    return r

# Types whose content cannot influence the future behaviour relevant to the
# checks (argument for each):
IGNORED_TYPE_NAMES = {
    "Context",            # contextvars.Context: only sniffio/anyio bookkeeping, re-derived per task
    "Logger", "RootLogger",  # logging: disabled during checks
    "module",
    "Token",
    "_thread.lock", "lock", "_thread.RLock", "RLock",   # real locks never contended in the controlled worlds
    "Struct",             # struct.Struct: immutable codec
    "Pattern",            # re.Pattern: immutable
    "Random",
    "TextIOWrapper",
    "ABCMeta", "type", "EnumType", "EnumMeta",
    "method_descriptor", "wrapper_descriptor", "getset_descriptor", "member_descriptor",
    "builtin_function_or_method", "method-wrapper",
    "WeakKeyDictionary", "WeakValueDictionary", "WeakSet",  # registries; their members are reached through strong roots
    "cell",
    "SSLContext",
    "traceback",
    "frame_locals_proxy",
}

TIME_ATTRS = {"_expire_at", "_deadline", "_when", "deadline", "when"}


class Canon:
    def __init__(self, now: float = 0.0, skip_attrs=(), extra_rules=None):
        self.now = now
        self.memo: dict[int, int] = {}
        self.keep: list = []   # keep visited objects alive so ids are not reused
        self.out: list[str] = []
        self.unmergeable: set[str] = set()
        self.skip_attrs = set(skip_attrs)
        self.extra_rules = extra_rules or {}
        self.depth = 0

    # -- helpers
    def w(self, *parts):
        ap = self.out.append
        for p in parts:
            if type(p) is str:
                ap(p)
            elif type(p) is bytes:
                ap(p.decode("latin1"))
            else:
                ap(str(p))

    def digest(self) -> bytes:
        h = hashlib.blake2b("\x1f".join(self.out).encode("utf-8", "surrogatepass"), digest_size=16).digest()
        if self.unmergeable:
            h = hashlib.blake2b(h + str(next(_NONCE)).encode() + str(id(self)).encode(), digest_size=16).digest()
        return h

    def shallow_key(self, o) -> str:
        """Order key for members of unordered containers (no memo side effects)."""
        if isinstance(o, (str, bytes, int, float, bool, type(None))):
            return f"{type(o).__name__}:{o!r}"
        if isinstance(o, enum.Enum):
            return f"E:{type(o).__name__}.{o.name}"
        if isinstance(o, tuple):
            return "T(" + ",".join(self.shallow_key(x) for x in o) + ")"
        if isinstance(o, asyncio.Task):
            return "Task:" + o.get_name()
        name = getattr(o, "_mc_name", None)
        if name is not None:
            return f"N:{name}"
        if id(o) in self.memo:
            return f"M:{self.memo[id(o)]:06d}"
        return "O:" + type(o).__qualname__

    # -- main dispatch
    def visit(self, o):
        t = type(o)
        if t is int:
            self.out.append("i%d" % o)
            return
        if t is str:
            self.out.append("s" + o)
            return
        if o is None:
            self.out.append("N")
            return
        if t is bool:
            self.out.append("T" if o else "F")
            return
        if t is float:
            self.out.append("f" + repr(o))
            return
        if t is bytes or t is bytearray:
            self.out.append("b%d:%s" % (len(o), bytes(o).decode("latin1")))
            return
        if isinstance(o, enum.Enum):
            self.w("E", t.__qualname__, o.name)
            return
        oid = id(o)
        idx = self.memo.get(oid)
        if idx is not None:
            self.w("@", idx)
            return
        self.memo[oid] = len(self.memo)
        self.keep.append(o)
        ms = getattr(t, "_mc_state", None)
        if ms is not None:
            self.w("S", t.__qualname__)
            self.visit(ms(o))
            return
        rule = self.extra_rules.get(t)
        if rule is not None:
            self.w("X", t.__qualname__)
            self.visit(rule(o))
            return
        if t is tuple or t is list or t is collections.deque:
            self.w(t.__name__, len(o))
            for x in o:
                self.visit(x)
            return
        if t is dict or t is collections.OrderedDict or t is collections.defaultdict:
            self._dict(o)
            return
        if t is set or t is frozenset:
            items = sorted(o, key=self.shallow_key)
            self.w("set", len(items))
            for x in items:
                self.visit(x)
            return
        if isinstance(o, type):
            self.w("cls", o.__module__, o.__qualname__)
            return
        if isinstance(o, (types.FunctionType, types.BuiltinFunctionType)):
            self.w("fn", getattr(o, "__module__", ""), o.__qualname__)
            return
        if isinstance(o, types.MethodType):
            self.w("meth", o.__func__.__qualname__)
            self.visit(o.__self__)
            return
        if isinstance(o, (types.CoroutineType, types.GeneratorType, types.AsyncGeneratorType)):
            self._gen(o)
            return
        if isinstance(o, types.FrameType):
            self._frame(o)
            return
        if isinstance(o, asyncio.Task):
            self._task(o)
            return
        if isinstance(o, asyncio.Future):
            self._future(o)
            return
        if isinstance(o, asyncio.Handle):
            self._handle(o)
            return
        if isinstance(o, BaseException):
            self.w("exc", t.__module__, t.__qualname__)
            return
        if isinstance(o, weakref.ref):
            self.w("wref")
            self.visit(o())
            return
        if isinstance(o, memoryview):
            self.w("mv", bytes(o))
            return
        if t is itertools.count or t is range:
            self.w("rp", repr(o))
            return
        if t is types.MappingProxyType:
            self._dict(dict(o))
            return
        tn = t.__name__
        if tn in IGNORED_TYPE_NAMES or t.__module__ in ("logging", "contextvars", "_contextvars"):
            self.w("ign", tn)
            return
        if tn in ("async_generator_asend", "async_generator_athrow", "FutureIter", "coroutine_wrapper", "async_generator_wrapped_value"):
            # opaque awaitables: their only state that outlives a step is what they refer to
            import gc as _gc
            self.w("aw", tn)
            for r in _gc.get_referents(o):
                if not isinstance(r, type):
                    self.visit(r)
            return
        if tn.endswith("iterator"):
            self._iterator(o)
            return
        if isinstance(o, (tuple, list)):      # namedtuples, list subclasses
            self.w("seq", t.__qualname__, len(o))
            for x in o:
                self.visit(x)
            d = getattr(o, "__dict__", None)
            if d:
                self._dict(d)
            return
        if isinstance(o, dict):
            self.w("dsub", t.__qualname__)
            self._dict(o)
            d = getattr(o, "__dict__", None)
            if d:
                self._dict(d)
            return
        if isinstance(o, (set, frozenset)):
            items = sorted(o, key=self.shallow_key)
            self.w("setsub", t.__qualname__, len(items))
            for x in items:
                self.visit(x)
            return
        if getattr(t, "__dictoffset__", 0) == 0 and hasattr(o, "__self__") and not isinstance(o, type):
            # C-level bound wrappers (TaskWakeupMethWrapper, TaskStepMethWrapper, bound builtins)
            self.w("cwrap", tn)
            self.visit(o.__self__)
            return
        self._object(o)

    def _dict(self, d):
        try:
            items = sorted(d.items(), key=lambda kv: self.shallow_key(kv[0]))
        except Exception:
            items = list(d.items())
        self.w("dict", len(items))
        for k, v in items:
            if isinstance(k, str) and k in self.skip_attrs:
                continue
            self.visit(k)
            if isinstance(k, str) and k in TIME_ATTRS and isinstance(v, float):
                self.w("rt", repr(round(v - self.now, 9)))
            else:
                self.visit(v)

    def _object(self, o):
        t = type(o)
        d = getattr(o, "__dict__", None)
        slots = []
        for klass in t.__mro__:
            s = klass.__dict__.get("__slots__")
            if s:
                if isinstance(s, str):
                    s = (s,)
                slots.extend(x for x in s if x not in ("__dict__", "__weakref__"))
        if d is None and not slots:
            # opaque C-level object without a rule: not mergeable
            self.unmergeable.add(f"{t.__module__}.{t.__qualname__}")
            self.w("opaque", t.__qualname__, next(_NONCE))
            return
        self.w("obj", t.__module__, t.__qualname__)
        skip = getattr(t, "_mc_skip", None)
        if d is not None:
            if skip:
                d = {k: v for k, v in d.items() if k not in skip}
            self._dict(d)
        for s in sorted(set(slots)):
            if s in self.skip_attrs:
                continue
            try:
                v = getattr(o, s)
            except AttributeError:
                self.w("slot-", s)
                continue
            self.w("slot", s)
            if s in TIME_ATTRS and isinstance(v, float):
                self.w("rt", repr(round(v - self.now, 9)))
            else:
                self.visit(v)

    def _frame(self, f):
        if f is None:
            self.w("noframe")
            return
        self.w("frame", f.f_code.co_qualname, f.f_lasti)
        loc = f.f_locals
        live = live_locals(f.f_code, f.f_lasti)
        for k in sorted(loc):
            if k in self.skip_attrs or k not in live:
                continue
            self.w("l", k)
            self.visit(loc[k])

    def _gen(self, g):
        if isinstance(g, types.CoroutineType):
            fr, aw, kind = g.cr_frame, g.cr_await, "coro"
        elif isinstance(g, types.GeneratorType):
            fr, aw, kind = g.gi_frame, g.gi_yieldfrom, "gen"
        else:
            fr, aw, kind = g.ag_frame, g.ag_await, "agen"
        self.w(kind, g.__qualname__)
        if fr is None:
            self.w("finished")
            return
        self._frame(fr)
        self.w("await")
        self.visit(aw)

    def _iterator(self, it):
        t = type(it)
        try:
            red = it.__reduce__()
        except Exception:
            self.unmergeable.add(f"{t.__module__}.{t.__qualname__}")
            self.w("opaque", t.__qualname__, next(_NONCE))
            return
        self.w("iter", t.__qualname__)
        for part in red[1:]:
            self.visit(part)

    def _future(self, f):
        self.w("fut", type(f).__name__, f._state)
        if f.done() and not f.cancelled():
            exc = f.exception()
            if exc is not None:
                self.visit(exc)
            else:
                self.visit(f.result())
        cbs = getattr(f, "_callbacks", None) or []
        self.w("cbs", len(cbs))
        for cb in cbs:
            self.visit(cb[0] if isinstance(cb, tuple) else cb)
        d = getattr(f, "__dict__", None)
        if d:
            self._dict(d)

    def _task(self, t):
        self.w("task", t.get_name(), t._state, int(bool(t._must_cancel)), t.cancelling())
        if t.done():
            if t.cancelled():
                self.w("cancelled")
            elif t.exception() is not None:
                self.visit(t.exception())
            else:
                self.visit(t.result())
            return
        self.visit(t.get_coro())
        self.w("waiter")
        self.visit(t._fut_waiter)

    def _handle(self, h):
        self.w("handle", type(h).__name__, int(h._cancelled))
        if h._cancelled:
            return
        if isinstance(h, asyncio.TimerHandle):
            self.w("in", repr(round(h._when - self.now, 9)))
        self.visit(h._callback)
        for a in h._args or ():
            self.visit(a)


def fingerprint(roots, now=0.0, skip_attrs=(), extra_rules=None):
    c = Canon(now, skip_attrs, extra_rules)
    for r in roots:
        c.visit(r)
    return c.digest(), c.unmergeable
