#!/bin/bash
# Re-bases every /verif/seeded/*/patch.diff onto /repo's current HEAD in a scratch worktree (never in /repo itself),
# re-confirms "repo tests pass with the change, demo fails with it and passes without it" there, and rewrites patch.diff
# so that `git -C /repo apply seeded/<id>/patch.diff` works on the current tree.  Original kept as patch.base.diff.
set -u
WT=/tmp/rebase_wt
git -C /repo worktree remove --force $WT 2>/dev/null
git -C /repo worktree add -q --detach $WT HEAD || exit 3
sha=$(git -C /repo rev-parse --short HEAD)
cd $WT
for d in /verif/seeded/*/; do
  id=$(basename $d)
  [ -n "${1:-}" ] && [[ "$id" != $1* ]] && continue
  [ -f $d/patch.base.diff ] || cp $d/patch.diff $d/patch.base.diff
  git reset -q --hard HEAD; git clean -qfd
  run_demo() { if grep -q "def test_" $d/demo.py && ! grep -q "__main__" $d/demo.py; then PYTHONPATH=$WT timeout 300 /venv/bin/python -m pytest -q -p no:cacheprovider $d/demo.py; else PYTHONPATH=$WT timeout 300 /venv/bin/python $d/demo.py; fi; }
  (cd $WT && run_demo) > /dev/null 2>&1; clean=$?
  if [ -f $d/patch.hand.diff ] && git apply $d/patch.hand.diff 2>/dev/null; then how=hand-rebased; elif git apply $d/patch.base.diff 2>/dev/null; then how=plain; elif git apply --3way $d/patch.base.diff 2>/dev/null && ! git diff --name-only --diff-filter=U | grep -q .; then how=3way; else echo "$id CONFLICT"; git reset -q --hard HEAD; continue; fi
  git diff HEAD > $d/patch.diff
  PYTHONPATH=$WT timeout 900 /venv/bin/python -m pytest -q -p no:cacheprovider --timeout=900 -x > /tmp/rebase_tests.log 2>&1; t=$?
  (cd $WT && run_demo) > /dev/null 2>&1; patched=$?
  echo "$id rebased_on=$sha how=$how demo_clean=$clean tests=$t ($(tail -1 /tmp/rebase_tests.log)) demo_patched=$patched"
  /venv/bin/python - "$d" "$sha" "$how" "$clean" "$t" "$patched" <<'PY'
import json,sys
d,sha,how,clean,t,patched=sys.argv[1:]
m=json.load(open(d+'/meta.json'))
m['rebased']={'on_repo_head':sha,'apply':how,'demo_without_patch_exit':int(clean),'repo_tests_with_patch_exit':int(t),'demo_with_patch_exit':int(patched),
  'all_confirmed': int(clean)==0 and int(t)==0 and int(patched)!=0,
  'note':'patch.diff applies to /repo at this HEAD (after the fix: commits); patch.base.diff is the original against the pinned snapshot'}
json.dump(m,open(d+'/meta.json','w'),indent=1)
PY
done
cd /; git -C /repo worktree remove --force $WT; git -C /repo worktree prune
