#!/venv/bin/python
"""Regenerates /verif/MANIFEST.json from the table below (single source of truth)."""
import json, os
ROOT = os.path.dirname(os.path.dirname(os.path.abspath(__file__)))
props = [json.loads(l) for l in open(os.path.join(ROOT, "properties.jsonl"))]

# id -> (category, technique, level text, level note, design ref)
CHECKS = {}
NA_REASON = {}

def reg(pid, category, technique, text, note, ref):
    CHECKS[pid] = dict(category=category, technique=technique, text=text, note=note, ref=ref)

exec(open(os.path.join(ROOT, "tools", "manifest_table.py")).read())

checks = []
for p in props:
    pid = p["id"]
    if pid not in CHECKS:
        continue
    c = CHECKS[pid]
    checks.append({
        "property_id": pid,
        "quick_cmd": f"./check {pid} --tier quick",
        "thorough_cmd": f"./check {pid} --tier thorough",
        "evidence_file": f"/verif/evidence/{pid}.json",
        "replay_cmd_template": f"./check {pid} --replay {{path}}",
        "engine": "mc",
        "level_claimed": {"category": c["category"], "text": c["text"], "design_ref": c["ref"]},
        "level_note": c["note"],
        "technique": c["technique"],
    })
na = [{"property_id": p["id"], "reason": NA_REASON.get(p["id"], "check not built yet (framework under construction; see DESIGN.md section 8)")}
      for p in props if p["id"] not in CHECKS]
m = {
    "version": 1,
    "setup_cmd": "true",
    "hooks": {
        "guard": "ENCODE_HTTPCORE_VERIF",
        "enable": "no source hooks exist: checks import /repo directly (asserted at start-up) and inject a simulated network backend through the public network_backend= argument; module-level names (time, threading) are rebound in the checker's own process only",
        "baseline_off_cmd": "cd /repo && /venv/bin/python -m pytest -ra -q -p no:cacheprovider --timeout=900 --continue-on-collection-errors",
        "source_commits": [],
        "add_only": True,
    },
    "engines": [{
        "name": "mc",
        "path": "/verif/mc",
        "serves_properties": sorted(CHECKS),
        "kind_free_text": "hand-written replay-based explicit-state / deviation-bounded explorer over the real httpcore objects (choice sequences, canonical heap fingerprints for state merging, 16-way parallel), driving a simulated network with independent protocol peers; sequential, virtual-asyncio-loop and controlled-thread worlds",
    }],
    "checks": checks,
    "not_applicable": na,
    "notes": "Exit 0 = held on everything explored (KNOWN-FINDING lines allowed); exit 1 = VIOLATION line(s); exit 2 = machinery error (never a violation). Known findings: /verif/known_findings.json.",
}
json.dump(m, open(os.path.join(ROOT, "MANIFEST.json"), "w"), indent=1)
print("claimed:", sorted(CHECKS), "NA:", [x["property_id"] for x in na])
