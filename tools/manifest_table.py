reg("C02", "model_checking",
    "explicit-state search over all read segmentations and truncation points of the real parser stack (state merging by canonical heap fingerprint)",
    "Every way of cutting each generated well-formed response into reads, and every truncation point, is enumerated on the real sync and async code (pool -> connection -> h11/h2) by explicit-state search: states are (wire position, full parser/connection/pool heap, stack locals), merged by canonical fingerprint; the frontier drains, so the run is exhaustive for each response of the corpus. Right level because the quantifier (all segmentations) is finite per response and the parser state space is linear in the response length.",
    "Trusted: the simulated NetworkBackend (documented interface only), the response grammar/ground truth in mc/props/c02.py, fingerprint completeness (guarded by no-fallback rule and merge on/off self-test). Bounded: corpus of short responses; nothing claimed for multi-kilobyte headers.",
    "DESIGN.md 5 C02")
_CONC_NOTE = ("Trusted: virtual asyncio loop (FIFO ready queue kept, external events chosen by the explorer), simulated backend and peers, "
              "fingerprint completeness (no-fallback rule). Bounded: 2-4 callers, <=3 origins, limits <=2, <=1 fault and <=1 cancellation per execution; "
              "the sync pool under threads is C08's business, with C04 / C05 / C06 running its failure-path scenarios for their own oracles.")
reg("C01", "model_checking", "explicit-state exploration of the real AsyncConnectionPool on a virtual event loop (all event orders, state merging), token-echo oracle",
    "All orders of external events for each small concurrent scenario (HTTP/1.1 keep-alive framings, HTTP/2 multiplexing, proxies) are explored on the real pool and connections; every caller's status/body is compared with the token the independent peer echoed and the peer checks that a connection is reused only after the previous exchange finished both ways.",
    _CONC_NOTE, "DESIGN.md 5 C01")
reg("C04", "model_checking", "explicit-state exploration on a virtual event loop with a limit invariant evaluated after every loop iteration, plus pre-emption-bounded exhaustive scheduling (CHESS) of the sync pool under real threads",
    "The sync pool under real threads (baton scheduler, every schedule with <=1-2 pre-emptions at source lines of connection_pool.py or at lock/event/network operations; failure path with queued requests, slow connect failures) is judged by the same limit monitor. The invariant (len(pool.connections) <= N and open streams on behalf of pooled connections + connects in flight <= N) is evaluated after every loop iteration of every explored execution, for all event orders of each scenario, with faults/cancellations/evictions.",
    _CONC_NOTE, "DESIGN.md 5 C04")
reg("C05", "fault_enumeration", "exhaustive fault-point and cancellation-point enumeration (deviation-bounded search) on the real code, sequential and virtual-loop worlds",
    "Every network operation of every connection type x every documented fault kind (both variants), and every loop-iteration boundary x {scope, native} cancellation (async), alone and with a second caller; afterwards pool bookkeeping, stuck-connection predicate and a behavioural capacity probe are checked.",
    _CONC_NOTE, "DESIGN.md 5 C05/C06")
reg("C06", "fault_enumeration", "exhaustive fault-point and cancellation-point enumeration with a stream-ownership ledger oracle",
    "Same explorations as C05; oracle: at quiescence every open simulated stream is owned by a pooled connection and after pool.close() every stream ever opened is closed.",
    _CONC_NOTE, "DESIGN.md 5 C05/C06")
reg("C07", "model_checking", "explicit-state exploration on a virtual event loop with deadlock / serviceable-waiter detection",
    "All event orders per scenario with pool timeout None, so a lost wake-up is a deadlock of the controlled scheduler; plus the invariant that no queued request is serviceable at quiescence.",
    _CONC_NOTE, "DESIGN.md 5 C07")
reg("C19", "exploration", "bounded-exhaustive enumeration of a URL grammar product against the RFC 3986 reference splitter",
    "Pure functions: the full product of URL components (about 70k URLs, str and bytes) plus origin pairs and header/content laws is enumerated; no sampling.",
    "Trusted: the RFC 3986 appendix-B regex reference in mc/props/c19.py. Bounded by the component alphabets listed in the evidence.", "DESIGN.md 5 C19")
_SEQ_NOTE = ("Trusted: the simulated NetworkBackend (public interface only) with its ledger, the independent peers/parsers in mc/simnet, the reference model written in the check. "
             "Single caller; bounded alphabets as listed in the evidence.")
reg("C03", "exploration", "bounded-exhaustive enumeration of request shapes on the real code with an independent wire decoder as oracle",
    "Full product of method x target x header sequence x body form, HTTP/1.1 and HTTP/2, sync and async, first use and reuse (a sub-product again over the ten other connection types; transparent re-sends and cancellation of a caller sharing an HTTP/2 connection on the virtual loop): the bytes received by the simulated peer are decoded by an independent HTTP/1.1 parser / frame-level HTTP/2 peer and compared with the caller's request; illegal heads must raise LocalProtocolError with nothing written (HTTP/1.1).",
    _SEQ_NOTE, "DESIGN.md 5 C03")
reg("C10", "exploration", "exhaustive enumeration of the configuration product and of near-miss origin sequences, judged from the backend ledger and the receiving peer",
    "Pools built as ConnectionPool(proxy=...) and as HTTPProxy / SOCKSProxy objects; pools without an ssl_context (the real default_ssl_context() with the ssl name re-bound inside httpcore._ssl) with a second pool's request nested at every trace event of the first; I/O through a pre-TLS stream object is recorded by the network. Every combination of scheme, port form, proxy mode, http1/http2 switches, ALPN outcome and sni_hostname, and every request sequence of length 2-3 over origin pairs that differ in one component: destination, TLS-iff-https/wss, SNI, ALPN offer and protocol choice are read from what the simulated peers saw.",
    _SEQ_NOTE, "DESIGN.md 5 C10")
reg("C18", "translation_validation", "translation validation of every line of _sync against unasync(_async) + lock-step differential exploration of sync vs async on the same choice trees",
    "(a) every file and line of httpcore/_sync equals the in-memory translation of httpcore/_async by the repository's own translator, no async/await token survives; (b) every execution of the sequential fault/segmentation/retry choice trees is run on the sync classes and replayed with the same choices on the async classes: choice-point labels, ledgers, outcomes, pool states and oracle verdicts must agree.",
    "Trusted: scripts/unasync.py as the definition of the translation; the differential part shares the simulated backend between variants.", "DESIGN.md 5 C18")
reg("C20", "fault_enumeration", "exhaustive enumeration of the prefix-closed tree of establishment outcome sequences against a reference model of the retry loop",
    "Every outcome sequence (success / ConnectError / ConnectTimeout / unrelated failure at TCP-or-UDS and TLS stage, then exchange ok/failed) for retries 0..4: attempts, pauses, raised error and absence of post-establishment retries are compared with a 30-line reference model.",
    _SEQ_NOTE, "DESIGN.md 5 C20")
reg("C09", "model_checking", "explicit-state BFS over pool operation sequences with a virtual clock; every transition judged against the property's rules from observed pre/post states",
    "All sequences (depth 4 quick / 5 thorough) of request/open/close/tick/server-close over three origins per pool configuration, HTTP/1.1 and HTTP/2, both variants (and, shallower, all ten TLS / negotiated / proxied connection types); every removal from the pool is judged against what the pool holds at that moment; states merged so deeper states are reached by chaining; rules R1 reuse, R2 idle limit, R3 dead connections never used and closed, R4 every close of a healthy idle connection explained.",
    _SEQ_NOTE + " time.monotonic in http11/http2 is redirected to the virtual clock by rebinding the module-level name.", "DESIGN.md 5 C09")
reg("C11", "exploration", "exhaustive enumeration of proxy configurations and proxy replies, judged from the bytes the simulated proxy saw before/after the tunnel boundary",
    "Both pool construction styles (ConnectionPool(proxy=...), HTTPProxy / SOCKSProxy objects); a Request object sent a second time. Full product of proxy kind, credentials, proxy headers (with case-insensitive collisions), origin (incl. IP literals), request headers/body, request extensions (sni_hostname, target) and proxy reply (CONNECT statuses, SOCKS method/auth/connect replies); the proxy peer's own byte-level parsers decide what reached which hop.",
    _SEQ_NOTE, "DESIGN.md 5 C11")
reg("C16", "model_checking", "ledger-based enumeration of timeout configurations with one read cut anywhere (explorer, bound 1) + pool-timeout scenarios on the virtual clock",
    "The limit in effect at every OS-level operation of the real sync/anyio/trio backends (settimeout value, innermost fail_after scope) is recorded too; PoolTimeout also under trio. Every simulated connect/start_tls/read/write of every connection type records its timeout argument and is compared with the configured value for 10 configurations; all orders of deadline vs release for queued requests, PoolTimeout exactly at enqueue+T.",
    _SEQ_NOTE, "DESIGN.md 5 C16")
reg("C17", "model_checking", "explicit-state search over all read segmentations x all caller max_bytes sequences of the upgrade hand-over",
    "For 101 and CONNECT-2xx with 0..10 post-head bytes: every cut of the byte stream and every sequence of max_bytes in {1,2,3,5,64KiB}; the upgraded stream must yield exactly the post-head bytes, writes pass through, the connection is closed and never pooled again.",
    _SEQ_NOTE, "DESIGN.md 5 C17")
reg("C15", "exploration", "bounded-exhaustive enumeration of peer input (all single-point mutations of valid conversations, structured HTTP/2 frames, token sequences) + fault enumeration",
    "The real sync/anyio/trio backends run over OS-level fakes with every OS/runtime exception at every OS-level operation; every single-point mutation at every offset of valid HTTP/1.1, HTTP/2, CONNECT and SOCKS5 conversations, frame type x flags x stream id x payload x position, HPACK/:status variants, all token sequences up to length 3/4, and every injected backend exception at every operation: the call must end with success or a documented httpcore exception whose class matches the cause, and must terminate.",
    _SEQ_NOTE, "DESIGN.md 5 C15")
reg("C12", "model_checking", "explicit-state exploration of the real HTTP/2 connection on a virtual event loop against a frame-level peer whose events the explorer orders",
    "All orders of per-stream HEADERS/DATA/END_STREAM/RST_STREAM, SETTINGS(MAX_CONCURRENT_STREAMS up/down/below in flight) and PING relative to 2-4 concurrent requests; token echo per stream, open-stream count by the peer's own books at every new stream, deadlock detection.",
    _CONC_NOTE, "DESIGN.md 5 C12")
reg("C14", "fault_enumeration", "fault-position and peer-event enumeration with a per-token request counter in the independent peers (sequential + virtual-loop worlds)",
    "Every op x fault kind per connection type; concurrent requests with one fault anywhere (cold and warm multiplexed HTTP/2); HTTP/1.1-fallback races; GOAWAY with every relevant last-stream-id and RST_STREAM at every point: a token may be seen twice only for a stream above a GOAWAY last-stream-id, and no new stream may follow a GOAWAY the client has read.",
    _CONC_NOTE, "DESIGN.md 5 C14")
reg("C13", "model_checking", "window-accounting oracle in an independent frame-level peer: exhaustive size/window matrix + explicit-state exploration of WINDOW_UPDATE schedules",
    "Upload sizes around window multiples x INITIAL_WINDOW_SIZE x MAX_FRAME_SIZE x chunking (both variants); downloads beyond the client's 16 MiB credit (one 20 MiB body, 1100 x 16 KiB on one connection); on the virtual loop every order of WINDOW_UPDATE events and completions for one and two uploads: no DATA beyond the peer's windows, body intact, END_STREAM once, no stall while both windows are open.",
    _CONC_NOTE, "DESIGN.md 5 C13")
reg("C08", "model_checking", "pre-emption-bounded exhaustive schedule exploration (CHESS-style) of real threads on the real synchronous pool under a controlled scheduler",
    "Real OS threads, one running at a time, pre-emptible at every source line of the sync pool/connection/protocol code (sys.settrace), at every lock/event/semaphore operation (shimmed threading) and network operation; every schedule with at most 1 (line) / 2 (sync-op) pre-emptions in quick, 2 / 3 in thorough, for 2-3 threads; oracles: token echo, limit monitor outside the pool lock, deadlock detector, no collateral failure.",
    "Trusted: the baton scheduler and threading shim in mc/tworld.py + mc/tshim.py; line-granularity pre-emption (single-line read-modify-write is atomic for the scheduler). Bounded: 2-3 threads, pre-emption bounds as reported.", "DESIGN.md 5 C08")
