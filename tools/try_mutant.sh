#!/bin/bash
# usage: tools/try_mutant.sh <patch.diff> <ID> [more ./check args]   — applies the patch to /repo, runs ./check, reverts.
set -u
patch="$(realpath "$1")"; shift
cd /repo || exit 3
if ! git diff --quiet || ! git diff --cached --quiet; then echo "/repo has local changes; refusing"; exit 3; fi
trap 'git -C /repo reset -q --hard HEAD' EXIT
git apply "$patch" 2>/dev/null || git apply --3way "$patch" 2>/dev/null || { echo "patch does not apply"; exit 3; }
if git diff --name-only --diff-filter=U | grep -q .; then echo "patch conflicts"; exit 3; fi
cd /verif && ./check "$@"
echo "exit=$?"
