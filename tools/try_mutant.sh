#!/bin/bash
# usage: tools/try_mutant.sh <patch.diff> <ID> [more ./check args]   — applies the patch to /repo, runs ./check, reverts.
set -u
patch="$1"; shift
cd /repo || exit 3
if ! git diff --quiet; then echo "/repo has local changes; refusing"; exit 3; fi
git apply "$patch" || { echo "patch does not apply"; exit 3; }
trap 'git -C /repo checkout -- . ' EXIT
cd /verif && ./check "$@"
echo "exit=$?"
