#!/bin/bash
# usage: tools/run_seeded.sh [filter] [tier]  — for every /verif/seeded/<id>/patch.diff: apply it in a scratch worktree of /repo (never /repo itself),
# run the quick check of the property it breaks against that worktree (VERIF_REPO), record whether a VIOLATION was reported. Writes seeded/RESULTS.tsv
filter=${1:-}; tier=${2:-quick}
WT=${SEED_WT:-/tmp/seed_wt}
git -C /repo worktree remove --force $WT 2>/dev/null
git -C /repo worktree add -q --detach $WT HEAD || exit 3
cd /verif
out=${SEED_OUT:-/verif/seeded/RESULTS.tsv}
[ -z "$filter" ] && printf 'seeded\tproperty\tcheck_exit\tdetected\twall_s\tfirst_violation\n' > $out
for d in seeded/*/; do
  id=$(basename $d); [ -n "$filter" ] && [[ "$id" != $filter* ]] && continue
  [ -n "$filter" ] && [[ "$filter" == C??-? ]] && [[ "$id" != "$filter" ]] && continue
  pid=${id%%-*}
  git -C $WT reset -q --hard HEAD
  git -C $WT apply $(realpath $d/patch.diff) || { printf '%s\t%s\t-\tPATCH-FAILED\t0\t\n' "$id" "$pid" | tee -a $out; continue; }
  s=$(date +%s)
  VERIF_REPO=$WT VERIF_NO_EVIDENCE=1 ./check $pid --tier $tier > /tmp/seeded_$id.log 2>&1; rc=$?
  e=$(date +%s)
  first=$(grep -A1 -m1 "^VIOLATION" /tmp/seeded_$id.log | tail -1 | tr -cd '[:print:]' | cut -c1-220)
  det=no; [ $rc -eq 1 ] && grep -q "^VIOLATION property=$pid" /tmp/seeded_$id.log && det=yes
  [ $rc -ge 2 ] && det="machinery-error"
  printf '%s\t%s\t%s\t%s\t%s\t%s\n' "$id" "$pid" "$rc" "$det" "$((e-s))" "$first" | tee -a $out
done
git -C /repo worktree remove --force $WT; git -C /repo worktree prune
