#!/venv/bin/python
"""store_seeded.py <ID> <A|B> <needs...>: copy a verified seeded change from /tmp/mut/<ID> to /verif/seeded/<ID>-<X>/"""
import json, os, shutil, sys
pid, x = sys.argv[1], sys.argv[2]
needs = " ".join(sys.argv[3:])
src = f"/tmp/mut/{pid}"
dst = f"/verif/seeded/{pid}-{x}"
os.makedirs(dst, exist_ok=True)
shutil.copy(f"{src}/{x}.patch.diff", f"{dst}/patch.diff")
shutil.copy(f"{src}/demo_{x}.py", f"{dst}/demo.py")
ver = dict(l.split("=", 1) for l in open(f"{src}/verify_{x}.txt").read().strip().splitlines())
ok = ver.get("demo_without_patch_exit", "").startswith("0") and ver.get("tests_with_patch_exit", "").startswith("0") and not ver.get("demo_with_patch_exit", "0").startswith("0")
meta = {
    "breaks_property": pid,
    "origin": "written by an independent sub-agent that saw only the property text and its own scratch worktree",
    "needs_to_manifest": needs,
    "files_touched": sorted({l.split(" b/")[1].strip() for l in open(f"{dst}/patch.diff") if l.startswith("diff --git")}),
    "confirmed_by_me": {
        "how": "tools/verify_seeded.sh in the scratch worktree: demo on clean tree, apply patch, full pytest suite (-x), demo again, revert",
        "demo_without_patch_exit": ver.get("demo_without_patch_exit"),
        "repo_tests_with_patch": ver.get("tests_with_patch_exit"),
        "demo_with_patch_exit": ver.get("demo_with_patch_exit"),
        "all_confirmed": ok,
    },
    "detected_by": [],
}
json.dump(meta, open(f"{dst}/meta.json", "w"), indent=1)
print(dst, "confirmed" if ok else "NOT CONFIRMED")
