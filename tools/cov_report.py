#!/venv/bin/python
"""cov_report.py <dir> [repo]: lines of httpcore/*.py that no exploration executed (from mc/covtrace.py output)."""
import glob, os, sys
d = sys.argv[1]; repo = sys.argv[2] if len(sys.argv) > 2 else "/repo"
hit = {}
for f in glob.glob(os.path.join(d, "*.txt")):
    for l in open(f):
        fn, _, ln = l.strip().rpartition(":")
        if fn and ln.isdigit():
            hit.setdefault(fn, set()).add(int(ln))

def exec_lines(code, out):
    for _, _, ln in code.co_lines():
        if ln is not None:
            out.add(ln)
    for c in code.co_consts:
        if hasattr(c, "co_lines"):
            exec_lines(c, out)

tot = miss = 0
for root, _, files in os.walk(os.path.join(repo, "httpcore")):
    for f in sorted(files):
        if not f.endswith(".py"):
            continue
        p = os.path.join(root, f); rel = os.path.relpath(p, repo)
        src = open(p).read()
        lines = set(); exec_lines(compile(src, p, "exec"), lines)
        srcl = src.splitlines()
        # drop lines that are only a docstring / a bare string constant or 'pass'/ellipsis
        lines = {n for n in lines if 1 <= n <= len(srcl) and srcl[n - 1].strip() not in ("", "...", "pass") and not srcl[n - 1].strip().startswith(('"""', "'''"))}
        m = sorted(lines - hit.get(rel, set()))
        tot += len(lines); miss += len(m)
        if m:
            # compress to ranges
            rs = []; s = e = m[0]
            for n in m[1:]:
                if n == e + 1 or all((k not in lines) for k in range(e + 1, n)):
                    e = n
                else:
                    rs.append((s, e)); s = e = n
            rs.append((s, e))
            print(f"{rel}: {len(m)}/{len(lines)} not executed: " + ", ".join(f"{a}" if a == b else f"{a}-{b}" for a, b in rs))
print(f"TOTAL executable {tot}, never executed {miss}")
