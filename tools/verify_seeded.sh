#!/bin/bash
# usage: verify_seeded.sh <ID> <A|B>  — in the scratch worktree /tmp/mut/<ID>: confirm tests pass with the patch,
# demo fails with it and passes without it; then store under /verif/seeded/<ID>-<X>/
id="$1"; x="$2"; wt=/tmp/mut/$id
cd $wt || exit 3
git checkout -q -- httpcore tests 2>/dev/null
[ -f $x.patch.diff ] || { echo "no patch $x"; exit 3; }
out=$wt/verify_$x.txt; : > $out
run_demo() { if grep -q "def test_" demo_$x.py && ! grep -q "__main__" demo_$x.py; then PYTHONPATH=$wt timeout 300 /venv/bin/python -m pytest -q -p no:cacheprovider demo_$x.py; else PYTHONPATH=$wt timeout 300 /venv/bin/python demo_$x.py; fi; }
run_demo > $wt/demo_${x}_clean.log 2>&1; echo "demo_without_patch_exit=$?" >> $out
git apply $x.patch.diff || { echo "apply failed" >> $out; exit 3; }
PYTHONPATH=$wt timeout 900 /venv/bin/python -m pytest -q -p no:cacheprovider --timeout=900 -x > $wt/tests_$x.log 2>&1; echo "tests_with_patch_exit=$? $(tail -1 $wt/tests_$x.log)" >> $out
run_demo > $wt/demo_${x}_patched.log 2>&1; echo "demo_with_patch_exit=$?" >> $out
git checkout -q -- httpcore tests
cat $out
