#!/bin/bash
# usage: tools/run_all.sh [quick|thorough] [seed] [first-id]  — runs every claimed check (from first-id on), prints one line each
tier=${1:-quick}; seed=${2:-0}; from=${3:-C01}; upto=${4:-C99}
cd "$(dirname "$0")/.."
for p in $(/venv/bin/python -c "import json;print(' '.join(c['property_id'] for c in json.load(open('MANIFEST.json'))['checks']))"); do
  [[ "$p" < "$from" ]] && continue
  [[ "$p" > "$upto" ]] && continue
  s=$(date +%s)
  VERIF_SEED=$seed ./check $p --tier $tier > /tmp/runall_${tier}_$p.log 2>&1; rc=$?
  e=$(date +%s)
  echo "$p rc=$rc $((e-s))s $(grep -c KNOWN-FINDING /tmp/runall_${tier}_$p.log) known; $(grep -E 'tier=' /tmp/runall_${tier}_$p.log | cut -c1-160) $(grep -m2 '^VIOLATION' /tmp/runall_${tier}_$p.log | tr '\n' ' ')"
done
