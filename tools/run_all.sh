#!/bin/bash
# usage: tools/run_all.sh [quick|thorough] [seed]  — runs every claimed check, prints one line each
tier=${1:-quick}; seed=${2:-0}
cd "$(dirname "$0")/.."
for p in $(/venv/bin/python -c "import json;print(' '.join(c['property_id'] for c in json.load(open('MANIFEST.json'))['checks']))"); do
  s=$(date +%s)
  VERIF_SEED=$seed ./check $p --tier $tier > /tmp/runall_$p.log 2>&1; rc=$?
  e=$(date +%s)
  echo "$p rc=$rc $((e-s))s $(grep -c KNOWN-FINDING /tmp/runall_$p.log) known; $(grep -E 'tier=' /tmp/runall_$p.log | cut -c1-160)"
done
