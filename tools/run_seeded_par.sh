#!/bin/bash
# usage: tools/run_seeded_par.sh [streams]  — tools/run_seeded.sh for every seeded change, in N parallel streams (one scratch worktree each);
# rewrites seeded/RESULTS.tsv (sorted) when all streams are done
N=${1:-4}
cd /verif
ids=($(ls seeded | grep -E '^C[0-9]{2}-[A-Z]$'))
tmp=$(mktemp -d /tmp/seedpar.XXXX)
for k in $(seq 0 $((N-1))); do
  ( for i in $(seq $k $N $((${#ids[@]}-1))); do id=${ids[$i]}; SEED_WT=/tmp/seed_wt_p$k SEED_OUT=$tmp/part$k.tsv tools/run_seeded.sh $id > /dev/null 2>&1; done ) &
done
wait
printf 'seeded\tproperty\tcheck_exit\tdetected\twall_s\tfirst_violation\n' > seeded/RESULTS.tsv
cat $tmp/part*.tsv | sort >> seeded/RESULTS.tsv
rm -rf $tmp
awk -F'\t' 'NR>1{n++; if($4=="yes")y++} END{print y" of "n" detected"}' seeded/RESULTS.tsv
