#!/venv/bin/python
import json,sys,collections
pid=sys.argv[1]
d=json.load(open(f'/tmp/verif_viol_{pid}.json'))
c=collections.Counter(); ex={}
for v in d:
    s=v['signature']
    site=s.get('site') or ''
    site=' > '.join(x.split(':')[-1] for x in site.split(' > ')[-2:])
    k=(v['oracle'], s.get('ct'), s.get('trigger') or s.get('fault'), s.get('fault_op') or '', site, s.get('state') or '', s.get('in_shield'))
    c[k]+=1; ex.setdefault(k,v)
for k,n in sorted(c.items(),key=str):
    print(n,k)
    if len(sys.argv)>2: print('      ',ex[k]['message'][:int(sys.argv[2])])
